/-
C11 — concurrent writers cannot scramble the wire.
Model: `Model/Conc.lean` (M13): any number of tasks, one atomic action per access to shared
state, tokio's FIFO lock hand-off; `Step` lets ANY task take its next action at any moment, so
the theorems cover every interleaving and every pre-emption point, not only the hook points
the harness can park a task at.  Invariants and their preservation: `Lemmas/Conc.lean`.
-/
import AnyTLS.Lemmas.Conc

namespace AnyTLS.C11
open AnyTLS

/-- the state of a session whose tasks have not started: whatever is on the wire and in the
initial buffer (a client: the Settings frame) is the beginning of the logical frame sequence -/
def initCS (s : Sess) : CS := { s := s, log := [{ owner := none, bytes := flatten s.wire ++ s.buffer }] }

structure Inv (cs : CS) : Prop where
  w : WInv cs
  o : OrdInv cs
  i : IdInv cs

theorem inv_init (s : Sess) : Inv (initCS s) where
  w := {
    excl := fun t h => by cases h
    eq := fun _ => by simp [initCS, CS.inflight, enc]
    fail := fun h => by cases h
    pre := by simp [initCS, enc] }
  o := {
    pre := fun t => by simp [accepted, initCS]
    eq := fun _ t => by simp [accepted, initCS, CS.task, PC.pending]
    ac := fun t h => by cases h }
  i := {
    unused := fun u _ => ⟨rfl, rfl⟩
    owners := fun x hx t ht => by
      simp only [initCS, List.mem_singleton] at hx; rw [hx] at ht; cases ht }

/-- what an inert inbound frame leaves alone -/
theorem recv_core (s : Sess) (f : Frame) (hq : inertCmd f.cmd = true) :
    (s.handleFrame f).1.wire = s.wire ∧ (s.handleFrame f).1.buffer = s.buffer ∧ (s.handleFrame f).1.closed = s.closed ∧
    (s.handleFrame f).1.shut = s.shut ∧ (s.handleFrame f).1.scheme = s.scheme := by
  have h := handleFrame_inert s f hq
  unfold Sess.core at h
  simp only [Prod.mk.injEq] at h
  exact ⟨h.1, h.2.1, h.2.2.1, h.2.2.2.1, h.2.2.2.2.1⟩

theorem inv_step {cs cs' : CS} (h : Inv cs) (st : Step cs cs') : Inv cs' := by
  cases st with
  | act _ t hm => exact ⟨WInv_micro _ _ t h.w hm, OrdInv_micro _ _ t h.o hm, IdInv_micro _ _ t h.i hm⟩
  | spawn k hk hs _ =>
    have hun := h.i.unused cs.n (Nat.le_refl _)
    refine ⟨?_, ?_, ?_⟩
    · -- the new id was unused: nothing in flight there
      refine ⟨?_, ?_, ?_, h.w.pre⟩
      · intro u hu
        rw [spawn_task] at hu
        split at hu
        · rw [hk] at hu; cases hu
        · exact h.w.excl u hu
      · intro hf
        have : (cs.spawn k).inflight = cs.inflight := by
          unfold CS.inflight
          show (match cs.bufHolder with | some t => ((cs.spawn k).task t).pc.inflight | none => []) = _
          cases hb : cs.bufHolder with
          | none => rfl
          | some t =>
            simp only
            rw [spawn_task]
            split
            · rename_i e; rw [hk, e, hun.1]; rfl
            · rfl
        rw [this]; exact h.w.eq hf
      · intro hf
        refine ⟨(h.w.fail hf).1, fun u => ?_⟩
        rw [spawn_task]; split
        · rw [hk]; rfl
        · exact (h.w.fail hf).2 u
    · have hacc : ∀ u, accepted (cs.spawn k) u = accepted cs u := fun _ => rfl
      have hnone : accepted cs cs.n = [] := by
        unfold accepted
        rw [List.map_eq_nil_iff, List.filter_eq_nil_iff]
        intro x hx hxo
        have := h.i.owners x hx cs.n (by simpa using hxo)
        omega
      refine ⟨fun u => ?_, fun hc u => ?_, fun u hu => ?_⟩
      · rw [hacc, spawn_task]; split
        · rename_i e; rw [e, hnone]; exact List.nil_prefix
        · exact h.o.pre u
      · rw [hacc, spawn_task]; split
        · rename_i e; rw [e, hnone, hs, hk]; rfl
        · exact h.o.eq hc u
      · rw [spawn_task] at hu; split at hu
        · rw [hk] at hu; cases hu
        · exact h.o.ac u hu
    · refine ⟨fun u hu => ?_, fun x hx t ht => ?_⟩
      · have : cs.n + 1 ≤ u := hu
        rw [spawn_task]; split
        · omega
        · exact h.i.unused u (by omega)
      · have := h.i.owners x hx t ht
        show t < cs.n + 1; omega
  | env b => exact ⟨⟨h.w.excl, h.w.eq, h.w.fail, h.w.pre⟩, ⟨h.o.pre, h.o.eq, h.o.ac⟩, ⟨h.i.unused, h.i.owners⟩⟩
  | recv f hq =>
    obtain ⟨c1, c2, c3, _, _⟩ := recv_core cs.s f hq
    refine ⟨WInv_quiet h.w h.w.excl (quiet_s cs _ c1 c2 (fun hc => by rw [c3]; exact hc)), ?_, ⟨h.i.unused, h.i.owners⟩⟩
    exact ⟨h.o.pre, fun hc => h.o.eq (by rw [← c3]; exact hc), fun t ht => by
      show (cs.s.handleFrame f).1.closed = true
      rw [c3]; exact h.o.ac t ht⟩

theorem inv_reach (s : Sess) {cs : CS} (r : Reach (initCS s) cs) : Inv cs := by
  induction r with
  | refl => exact inv_init s
  | step _ st ih => exact inv_step ih st

/-- every entry of the logical frame sequence is whole: the initial bytes, an entire encoded
frame handed to `write_frame` by its owner, or padding made of entire Waste frames -/
def WholeUnits (s : Sess) (cs : CS) : Prop :=
  ∃ more, cs.log = (initCS s).log ++ more ∧
    ∀ x ∈ more, (∃ t, x.owner = some t ∧ x.bytes ∈ (cs.task t).submitted) ∨
                (x.owner = none ∧ ∃ pads : List Nat, x.bytes = flatten (pads.map wasteFrame))

/-- T11.1 `contiguous`: in every reachable state, under every interleaving of any number of
tasks, the bytes on the transport are a prefix of the concatenation of WHOLE units in the order
in which `write_frame` accepted them — no frame is ever torn or interleaved with another. -/
theorem contiguous (s : Sess) {cs : CS} (r : Reach (initCS s) cs) : flatten cs.s.wire <+: enc cs.log :=
  (inv_reach s r).w.pre

/-- T11.2 `program_order`: the frames of one task enter the sequence in the order in which the
task submitted them, without gaps: they are a prefix of its submission list. -/
theorem program_order (s : Sess) {cs : CS} (r : Reach (initCS s) cs) (t : Nat) :
    accepted cs t <+: (cs.task t).submitted :=
  (inv_reach s r).o.pre t

/-- while the session is open nothing a task submitted is skipped: submitted = accepted ++ still pending -/
theorem nothing_skipped (s : Sess) {cs : CS} (r : Reach (initCS s) cs) (hc : cs.s.closed = false) (t : Nat) :
    (cs.task t).submitted = accepted cs t ++ (cs.task t).pc.pending :=
  (inv_reach s r).o.eq hc t

theorem log_grows (s : Sess) {cs : CS} (r : Reach (initCS s) cs) : ∃ more, cs.log = (initCS s).log ++ more := by
  induction r with
  | refl => exact ⟨[], by simp⟩
  | step _ st ih =>
    obtain ⟨more, hm⟩ := ih
    cases st with
    | act _ t hmi =>
      obtain ⟨add, hl, _⟩ := micro_log _ _ t hmi
      exact ⟨more ++ add, by rw [hl, hm, List.append_assoc]⟩
    | spawn k _ _ _ => exact ⟨more, hm⟩
    | env b => exact ⟨more, hm⟩
    | recv f _ => exact ⟨more, hm⟩

/-- T11.3 `settings_first`: whatever was in the session's initial buffer (for a client: exactly
the Settings frame, `Sess.startClient`) precedes everything any task writes: the wire is a
prefix of `initial ++ …`. -/
theorem settings_first (s : Sess) {cs : CS} (r : Reach (initCS s) cs) :
    ∃ rest, flatten cs.s.wire <+: (flatten s.wire ++ s.buffer) ++ rest := by
  obtain ⟨more, hm⟩ := log_grows s r
  refine ⟨enc more, ?_⟩
  have := contiguous s r
  rw [hm, enc_append] at this
  simpa [initCS, enc] using this

/-- every unit of the sequence is whole (see `WholeUnits`) -/
theorem whole_units (s : Sess) {cs : CS} (r : Reach (initCS s) cs) : WholeUnits s cs := by
  have hinv := inv_reach s r
  have pads : ∃ more, cs.log = (initCS s).log ++ more ∧
      ∀ x ∈ more, (∃ t, x.owner = some t) ∨ (x.owner = none ∧ ∃ pads : List Nat, x.bytes = flatten (pads.map wasteFrame)) := by
    clear hinv
    induction r with
    | refl => exact ⟨[], by simp, fun x hx => by cases hx⟩
    | step _ st ih =>
      obtain ⟨more, hm, hgood⟩ := ih
      cases st with
      | act _ t hmi =>
        obtain ⟨add, hl, hadd⟩ := micro_log _ _ t hmi
        refine ⟨more ++ add, by rw [hl, hm, List.append_assoc], fun x hx => ?_⟩
        rcases List.mem_append.mp hx with hx | hx
        · exact hgood x hx
        · rcases hadd x hx with e | e
          · exact Or.inl ⟨t, e⟩
          · exact Or.inr e
      | spawn k _ _ _ => exact ⟨more, hm, hgood⟩
      | env b => exact ⟨more, hm, hgood⟩
      | recv f _ => exact ⟨more, hm, hgood⟩
  obtain ⟨more, hm, hgood⟩ := pads
  refine ⟨more, hm, fun x hx => ?_⟩
  rcases hgood x hx with ⟨t, e⟩ | e
  · left
    refine ⟨t, e, ?_⟩
    apply (hinv.o.pre t).subset
    unfold accepted
    rw [List.mem_map]
    refine ⟨x, ?_, rfl⟩
    rw [List.mem_filter]
    refine ⟨by rw [hm]; exact List.mem_append_right _ hx, by rw [e]; simp⟩
  · exact Or.inr e

theorem syn_reach (s : Sess) {cs : CS} (r : Reach (initCS s) cs) : SynInv cs := by
  induction r with
  | refl => intro t sid h; cases h
  | step _ st ih =>
    cases st with
    | act _ t hm => exact SynInv_micro _ _ t ih hm
    | spawn k _ hs hsid =>
      intro u sid h
      rw [spawn_task] at h ⊢
      split
      · rename_i e; simp only [e, if_true] at h; rw [hsid] at h; cases h
      · rename_i e; simp only [e, if_false] at h; exact ih u sid h
    | env b => exact ih
    | recv f _ => exact ih

theorem dataFrames_shape (sid : Nat) : ∀ (fuel : Nat) (data : Bytes), ∀ f ∈ dataFrames fuel sid data,
    ∃ chunk, f = { cmd := .push, sid := sid, data := chunk } := by
  intro fuel
  induction fuel with
  | zero => intro data f h; cases h
  | succ n ih =>
    intro data f h
    unfold dataFrames at h
    split at h
    · rcases List.mem_cons.mp h with e | e
      · exact ⟨_, e⟩
      · exact ih _ f e
    · rw [List.mem_singleton] at h; exact ⟨_, h⟩

/-- T11.4 `syn_before_own_data`: when a task writes data on the stream it opened itself (what
`create_proxy_stream` and every forwarder do after their own `open_stream` returned), the
stream's SYN is already in its submission list, before the data frames the operation appends.
With `program_order` and `contiguous`: on the wire the SYN precedes every such data frame,
under every interleaving with any number of other writers. -/
theorem syn_before_own_data (s : Sess) {cs cs' : CS} (r : Reach (initCS s) cs) (t : Nat)
    (hpc : (cs.task t).pc = .idle) (payload : Bytes) (rest : List COp)
    (hop : (cs.task t).ops = .dataOwn payload :: rest) (sid : Nat)
    (hsid : ((cs.task t).sids.filterMap id).getLast? = some sid) (hm : micro cs t = some cs') :
    ∃ new, (cs'.task t).submitted = (cs.task t).submitted ++ new ∧ synBytes sid ∈ (cs.task t).submitted ∧
      ∀ b ∈ new, ∃ chunk, b = encodeD { cmd := .push, sid := sid, data := chunk } := by
  have hsyn : synBytes sid ∈ (cs.task t).submitted := by
    apply syn_reach s r t sid
    have := List.mem_of_getLast? hsid
    rw [List.mem_filterMap] at this
    obtain ⟨a, ha, e⟩ := this
    simp only [id] at e
    rw [e] at ha; exact ha
  unfold micro at hm
  simp only [hpc, hop, hsid, Option.getD_some] at hm
  cases hm
  refine ⟨_, by rw [submit_self], hsyn, ?_⟩
  intro b hb
  rw [List.mem_map] at hb
  obtain ⟨f, hf, e⟩ := hb
  obtain ⟨chunk, hc⟩ := dataFrames_shape sid _ _ f hf
  exact ⟨chunk, by rw [← e, hc]⟩

/-- `registered_before_syn` (used by C01 and C10): the step that hands a stream's SYN to
`write_frame` is the step that registers the stream in BOTH tables — so at every moment at which
the SYN can be on the wire (or even in the buffer) the receive loop already knows the stream:
a SYNACK, data or FIN that arrives while the opener is still inside the SYN write finds it
(`Step.recv` may happen at any point; what it then does to the stream is C01 / C02 / C10). -/
theorem registered_before_syn (cs cs' : CS) (t : Nat) (hpc : (cs.task t).pc = .openChecked) (hm : micro cs t = some cs') :
    let sid := cs.s.nextSid
    let h := cs.s.objs.length
    tblGet cs'.s.streams sid = some h ∧ tblGet cs'.s.recv sid = some h ∧ cs'.s.objs[h]? = some { sid := sid } ∧
    (cs'.task t).submitted = (cs.task t).submitted ++ [synBytes sid] ∧ cs'.log = cs.log := by
  unfold micro at hm
  simp only [hpc] at hm
  cases hm
  refine ⟨?_, ?_, ?_, ?_, rfl⟩
  · show tblGet (tblInsert cs.s.streams cs.s.nextSid cs.s.objs.length) cs.s.nextSid = _
    rw [tblGet_insert]; simp
  · show tblGet (tblInsert cs.s.recv cs.s.nextSid cs.s.objs.length) cs.s.nextSid = _
    rw [tblGet_insert]; simp
  · show (cs.s.objs ++ [({ sid := cs.s.nextSid } : Obj)])[cs.s.objs.length]? = _
    simp
  · rw [submit_self]
    show ((CS.setTask _ t _).task t).submitted ++ _ = _
    rw [setTask_task, if_pos rfl]; rfl

/-- T11.5 `nothing_dropped`: whenever no write is in progress and no transport write has failed,
everything accepted is on the wire or still in the initial buffer — nothing was lost. -/
theorem nothing_dropped (s : Sess) {cs : CS} (r : Reach (initCS s) cs) (hf : cs.failed = false)
    (hb : cs.bufHolder = none) : flatten cs.s.wire ++ cs.s.buffer = enc cs.log := by
  have := (inv_reach s r).w.eq hf
  unfold CS.inflight at this
  rw [hb] at this
  simpa using this

/-- after a failed transport write the session is closed (and stays so): the torn write is the last -/
theorem failure_closes (s : Sess) {cs : CS} (r : Reach (initCS s) cs) (hf : cs.failed = true) : cs.s.closed = true :=
  ((inv_reach s r).w.fail hf).1

/-- the buffer lock is exclusive: at most one task is between `wf:locked` and the release -/
theorem one_writer (s : Sess) {cs : CS} (r : Reach (initCS s) cs) (t u : Nat)
    (ht : (cs.task t).pc.holdsBuf = true) (hu : (cs.task u).pc.holdsBuf = true) : t = u := by
  have e := (inv_reach s r).w.excl
  have := (e t ht).symm.trans (e u hu)
  cases this; rfl

end AnyTLS.C11

namespace AnyTLS.C11
open AnyTLS

/-! ### the scheduler of the correspondence check only composes micro actions -/

theorem reach_trans {a b c : CS} (h1 : Reach a b) (h2 : Reach b c) : Reach a c := by
  induction h2 with
  | refl => exact h1
  | step _ st ih => exact .step ih st

theorem runFree_reach : ∀ (fuel : Nat) (cs : CS) (t : Nat), Reach cs (runFree fuel cs t) := by
  intro fuel
  induction fuel with
  | zero => intro cs t; exact .refl
  | succ n ih =>
    intro cs t
    unfold runFree
    split
    · split
      · rename_i cs' hm
        exact reach_trans (.step .refl (.act cs cs' t hm)) (ih cs' t)
      · exact .refl
    · exact .refl

theorem settle_reach : ∀ (fuel : Nat) (cs : CS), Reach cs (settle fuel cs) := by
  intro fuel
  induction fuel with
  | zero => intro cs; exact .refl
  | succ n ih =>
    intro cs
    unfold settle
    split
    · rename_i t _
      exact reach_trans (runFree_reach 64 cs t) (ih _)
    · exact .refl

/-- every state the driver's `stepTask` produces is reachable in the sense of the theorems above -/
theorem stepTask_reach (cs cs' : CS) (t : Nat) (h : stepTask cs t = some cs') : Reach cs cs' := by
  unfold stepTask at h
  simp only at h
  split at h
  · split at h
    · rename_i c1 hm
      cases h
      exact reach_trans (.step .refl (.act cs c1 t hm)) (settle_reach 64 c1)
    · cases h
  · cases h

/-- non-vacuity: a fresh client session (Settings buffered), two tasks that open a stream, stop
buffering and write; a schedule in which the second task overtakes the first at every lock — the
wire then starts with Settings, each SYN precedes its own data, and nothing is lost. -/
def demoSess : Sess :=
  ((Sess.initClient ((Scheme.parse (asciiBytes "stop=0")).getD default) "x" 0).startClient).1

def demoCS : CS :=
  ((initCS demoSess).spawn { ops := [.open, .nobuf, .dataOwn [65, 65]], allOps := [] }).spawn
    { ops := [.open, .dataOwn [66]], allOps := [] }

/-- the schedule "task 1 whenever it can run, else task 0" -/
def demoGo : Nat → CS → CS
  | 0, cs => cs
  | f + 1, cs =>
    match [1, 0].find? (fun t => (stepTask cs t).isSome) with
    | some t => demoGo f ((stepTask cs t).getD cs)
    | none => cs

example : (fun cs => ((decodeAll (flatten cs.s.wire)).1.map (fun f => (f.cmd, f.sid, f.data.length)), cs.s.buffer.length,
      (cs.task 0).results, (cs.task 1).results)) (demoGo 100 demoCS) =
    ([(.settings, 0, 40), (.syn, 1, 0), (.push, 1, 1), (.syn, 2, 0), (.push, 2, 2)], 0, [.ok, .ok, .ok], [.ok, .ok]) := by
  decide +kernel

end AnyTLS.C11
