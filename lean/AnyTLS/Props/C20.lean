/-
C20 — hostile or garbled input cannot crash or wedge the proxy.
What a Lean theorem can give here is totality and progress of the model, state invariants under
every frame, prefix stability of the parsers and isolation between sessions; that the *Rust*
code does not panic or hang is established by the correspondence run on hostile inputs (bounded,
labelled as such): the model never produces "panicked" or "blocked", so any panic or hang is a
disagreement with a replay.
-/
import AnyTLS.Props.C02
import AnyTLS.Props.C03
import AnyTLS.Props.C04
import AnyTLS.Props.C06
import AnyTLS.Props.C16
import AnyTLS.Props.C19

namespace AnyTLS.C20
open AnyTLS AnyTLS.Gen

/-- T20.1: the receive loop's decoding step is total and makes progress on every byte string:
at most |buf|/7 frames, every byte accounted for, the residue is an incomplete frame (C03). -/
theorem receive_loop_total (b : Bytes) :
    sumSizes (decodeAll b).1 + (decodeAll b).2.length = b.length ∧
    decodeStep (decodeAll b).2 = none ∧ 7 * (decodeAll b).1.length ≤ b.length :=
  C03.decodeAll_total b

/-- the transport accepts every write (no budget, not shut down) -/
def HealthyTransport (s : Sess) : Prop := s.wrBudget = none ∧ s.shut = false

theorem transportWrites_healthy : ∀ (ws : List Bytes) (t : Sess), HealthyTransport t →
    (t.transportWrites ws).2 = .ok ∧ (t.transportWrites ws).1.closed = t.closed ∧
    HealthyTransport (t.transportWrites ws).1 := by
  intro ws
  induction ws with
  | nil => intro t h; exact ⟨rfl, rfl, h⟩
  | cons w ws ih =>
    intro t ⟨h1, h2⟩
    unfold Sess.transportWrites
    split
    · rename_i h; rw [h2] at h; cases h
    · split
      · rename_i h; rw [h1] at h; cases h
      · rename_i h; rw [h1] at h; cases h
      · exact ih { t with wire := t.wire ++ [w] } ⟨h1, h2⟩

theorem writeWithPadding_healthy (t : Sess) (payload : Bytes) (h : HealthyTransport t) :
    (t.writeWithPadding payload).1.closed = t.closed ∧ HealthyTransport (t.writeWithPadding payload).1 := by
  have gen : ∀ (t' : Sess) (ws : List Bytes), t'.wrBudget = t.wrBudget → t'.shut = t.shut → t'.closed = t.closed →
      (t'.transportWrites ws).1.closed = t.closed ∧ HealthyTransport (t'.transportWrites ws).1 := by
    intro t' ws e1 e2 e3
    have ht' : HealthyTransport t' := ⟨by rw [e1]; exact h.1, by rw [e2]; exact h.2⟩
    have := transportWrites_healthy ws t' ht'
    exact ⟨by rw [this.2.1, e3], this.2.2⟩
  unfold Sess.writeWithPadding
  split
  · exact gen _ _ rfl rfl rfl
  · simp only
    split
    · exact gen _ _ rfl rfl rfl
    · split
      · exact gen _ _ rfl rfl rfl
      · exact gen _ _ rfl rfl rfl

theorem writeFrame_healthy (s : Sess) (f : Frame) (h : HealthyTransport s) :
    (s.writeFrame f).1.closed = s.closed ∧ HealthyTransport (s.writeFrame f).1 := by
  unfold Sess.writeFrame
  split
  · exact ⟨rfl, h⟩
  · split
    · exact ⟨rfl, h⟩
    · split
      · exact ⟨rfl, h⟩
      · exact writeWithPadding_healthy { s with buffer := [] } _ h

/-- T20.2 `closes_only_on_alert`: while the transport accepts writes, no frame of any kind — any
of the 11 commands or an unknown byte, any stream id, any payload, legal or illegal for the
receiver's role — closes an open session, except the fatal Alert. -/
theorem closes_only_on_alert (s : Sess) (f : Frame) (hopen : s.closed = false) (ht : HealthyTransport s)
    (hc : (s.handleFrame f).1.closed = true) : f.cmd = .alert := by
  by_cases hq : quietCmd f.cmd = true
  · obtain ⟨_, _, hcl, _⟩ := handleFrame_quiet_tables s f hq
    rw [hcl, hopen] at hc; cases hc
  · rcases C02.quiet_or_session_level f.cmd with h | h | h | h
    · exact absurd h hq
    · -- settings
      exfalso
      unfold Sess.handleFrame at hc
      simp only [h] at hc
      split at hc
      · unfold Sess.handleSettings at hc
        simp only at hc
        have hp : (s.maybePushScheme (parseMap f.data)).1.closed = s.closed ∧
            HealthyTransport (s.maybePushScheme (parseMap f.data)).1 := by
          unfold Sess.maybePushScheme
          split
          · split
            · exact writeFrame_healthy s _ ht
            · exact ⟨rfl, ht⟩
          · exact ⟨rfl, ht⟩
        cases hm : s.maybePushScheme (parseMap f.data) with
        | mk s1 r1 =>
          rw [hm] at hp hc
          simp only at hp
          have hs1 : ∀ (m : List (Bytes × Bytes)), (s1.maybeServerSettings m).1.closed = s1.closed := by
            intro m
            have genw : ∀ (t' : Sess) (fr : Frame) (s' : Sess) (r : Res), t'.writeFrame fr = (s', r) →
                t'.wrBudget = s1.wrBudget → t'.shut = s1.shut → t'.closed = s1.closed → s'.closed = s1.closed := by
              intro t' fr s' r hw e1 e2 e3
              have ht' : HealthyTransport t' := ⟨by rw [e1]; exact hp.2.1, by rw [e2]; exact hp.2.2⟩
              have := writeFrame_healthy t' fr ht'
              rw [hw] at this
              rw [← e3]; exact this.1
            unfold Sess.maybeServerSettings
            split
            · split
              · simp only
                split <;> (have hw := (by assumption : Sess.writeFrame _ _ = (_, _)); exact genw _ _ _ _ hw rfl rfl rfl)
              · rfl
            · rfl
          cases r1 <;> simp only at hc
          · rw [hs1, hp.1, hopen] at hc; cases hc
          all_goals (rw [hp.1, hopen] at hc; cases hc)
      · rw [hopen] at hc; cases hc
    · exact h
    · -- heartRequest
      exfalso
      unfold Sess.handleFrame at hc
      simp only [h] at hc
      have := writeFrame_healthy s { cmd := .heartResponse, sid := f.sid, data := [] } ht
      split at hc <;> (rename_i hw; rw [hw] at this; simp only at this hc; rw [this.1, hopen] at hc; cases hc)

/-- T20.2b: quiet frames keep every state invariant (tables consistent, readers well-formed). -/
theorem quiet_frames_keep_invariant (s : Sess) (f : Frame) (hq : quietCmd f.cmd = true) (hwf : s.WF) :
    (s.handleFrame f).1.WF := handleFrame_quiet_WF s f hq hwf

/-- T20.3: settings and scheme payloads: every byte string is parsed without failure, and
whatever an accepted scheme says, the sizes the sender acts on are in range (C04). -/
theorem scheme_payloads_sane (raw : Bytes) (sch : Scheme) (_h : Scheme.parse raw = some sch) (pkt : Nat) (rs : List Nat) :
    ∀ sz ∈ resolve (sch.specs pkt) rs, ∀ n, sz = .size n → 1 ≤ n ∧ n ≤ 65535 :=
  (C04.sizes_sane sch pkt rs).2

/-- T20.4: the front-end parsers reach the same verdict however the bytes are segmented (a
verdict on a prefix is the verdict on every extension): authentication preamble, SOCKS5
greeting. (Destination headers and datagrams: C07 `dest_roundtrip`, C15 `dgram_roundtrip`.) -/
theorem parsers_prefix_stable (exp a b : Bytes) :
    (authServer exp a ≠ .needMore → authServer exp (a ++ b) = authServer exp a) ∧
    (socksGreeting a ≠ .needMore → socksGreeting (a ++ b) = socksGreeting a) :=
  ⟨C06.auth_prefix_stable exp a b, C16.greeting_prefix_stable a b⟩

/-- T20.5: sessions of one process share nothing but the process-wide default scheme: whatever a
peer sends to session `i`, every other session's state is untouched. -/
theorem sibling_untouched (p : Proc) (i j : Nat) (f : Frame) (hij : j ≠ i) :
    (p.frame i f).sessions[j]? = p.sessions[j]? := by
  unfold Proc.frame
  cases hi : p.sessions[i]? with
  | none => rfl
  | some s =>
    simp only [List.getElem?_mapIdx]
    cases p.sessions[j]? with
    | none => rfl
    | some t => simp [hij]

end AnyTLS.C20
