/-
C18 — certificate hot-reload is all-or-nothing.
Model: `Model/Cert.lean` (state machine over an abstract validator; the validation itself is the
real rustls, exercised by the cert group with disk states whose validity is known by construction).
-/
import AnyTLS.Model.Cert

namespace AnyTLS.C18
open AnyTLS

/-- T18.1 `failed_reload_noop`: a reload that fails for any reason (a file missing, truncated,
garbled or empty, key not matching the certificate, expired certificate with the expiry check
on) returns an error and leaves the active pair, the reported information, the counter and
every accepted connection exactly as they were. -/
theorem failed_reload_noop (st : CertSt) (expired : Nat → Bool) (cert key : FileRead)
    (h : (st.reload expired cert key).2 = false) : (st.reload expired cert key).1 = st := by
  unfold CertSt.reload at h ⊢
  cases cert <;> cases key <;> simp only at h ⊢
  rename_i c k
  by_cases hc : (c == k && !(st.checkExpiry && expired c)) = true
  · rw [if_pos hc] at h; cases h
  · rw [if_neg hc]

/-- a reload fails exactly when the two reads are not a matching, acceptable pair -/
theorem reload_ok_iff (st : CertSt) (expired : Nat → Bool) (cert key : FileRead) :
    (st.reload expired cert key).2 = true ↔
      ∃ c, cert = some c ∧ key = some c ∧ ¬ (st.checkExpiry = true ∧ expired c = true) := by
  unfold CertSt.reload
  cases cert with
  | none => simp
  | some c =>
    cases key with
    | none => simp
    | some k =>
      simp only
      by_cases hck : (c == k) = true
      · have : c = k := by simpa using hck
        subst this
        by_cases he : (st.checkExpiry && expired c) = true
        · simp [he]; simpa using he
        · simp [he]; simpa using he
      · have : c ≠ k := by simpa using hck
        simp [hck]; intro h; exact absurd h.symm this

/-- T18.2 `ok_reload_swaps`: a successful reload makes exactly the pair validated in this call
active, reports exactly that pair, and counts once; every later connection is served with it
until the next successful reload. -/
theorem ok_reload_swaps (st : CertSt) (expired : Nat → Bool) (cert key : FileRead)
    (h : (st.reload expired cert key).2 = true) :
    ∃ c, cert = some c ∧ key = some c ∧
      (st.reload expired cert key).1.active = c ∧ (st.reload expired cert key).1.info = c ∧
      (st.reload expired cert key).1.count = st.count + 1 ∧
      ((st.reload expired cert key).1.accept).accepted.getLast? = some c := by
  obtain ⟨c, hc, hk, he⟩ := (reload_ok_iff st expired cert key).mp h
  subst hc; subst hk
  have hcond : (c == c && !(st.checkExpiry && expired c)) = true := by
    simp only [beq_self_eq_true, Bool.true_and, Bool.not_eq_true']
    cases h1 : st.checkExpiry <;> cases h2 : expired c <;> simp_all
  refine ⟨c, rfl, rfl, ?_⟩
  unfold CertSt.reload
  simp only
  rw [if_pos hcond]
  simp [CertSt.accept]

/-- histories: reloads (with the two reads they performed) and new connections -/
inductive Ev where
  | reload (cert key : FileRead)
  | accept

def step (expired : Nat → Bool) (st : CertSt) : Ev → CertSt
  | .reload c k => (st.reload expired c k).1
  | .accept => st.accept

/-- pairs validated *as a pair* by some reload of the history -/
def validated : List Ev → List Nat
  | [] => []
  | .reload (some c) (some k) :: evs => if c == k then c :: validated evs else validated evs
  | _ :: evs => validated evs

/-- T18.3 `active_always_validated` / T18.5 `info_matches_active`: at every moment of every
history the active pair is the initial pair or a pair that some reload read completely from
both files *as a pair* (never a certificate from one pair and a key from another), and the
reported information describes exactly the active pair. -/
theorem active_always_validated (expired : Nat → Bool) (evs : List Ev) : ∀ (st : CertSt), st.info = st.active →
    let st' := evs.foldl (step expired) st
    (st'.active = st.active ∨ st'.active ∈ validated evs) ∧ st'.info = st'.active := by
  induction evs with
  | nil => intro st h; exact ⟨Or.inl rfl, h⟩
  | cons e evs ih =>
    intro st h
    simp only [List.foldl_cons]
    cases e with
    | accept =>
      have := ih st.accept (by simpa [CertSt.accept] using h)
      simp only [step]
      refine ⟨?_, this.2⟩
      rcases this.1 with h1 | h1
      · left; simpa [CertSt.accept] using h1
      · right; simpa [validated] using h1
    | reload cert key =>
      simp only [step]
      cases hok : (st.reload expired cert key).2 with
      | false =>
        rw [failed_reload_noop st expired cert key hok]
        have := ih st h
        refine ⟨?_, this.2⟩
        rcases this.1 with h1 | h1
        · left; exact h1
        · right
          cases cert <;> cases key <;> simp only [validated] <;> try exact h1
          split
          · exact List.mem_cons_of_mem _ h1
          · exact h1
      | true =>
        obtain ⟨c, hc, hk, ha, hi, _, _⟩ := ok_reload_swaps st expired cert key hok
        subst hc; subst hk
        have := ih (st.reload expired (some c) (some c)).1 (by rw [hi, ha])
        refine ⟨?_, this.2⟩
        simp only [validated, beq_self_eq_true, if_true]
        rcases this.1 with h1 | h1
        · right; rw [h1, ha]; exact List.mem_cons_self
        · right; exact List.mem_cons_of_mem _ h1

/-- T18.4: a connection's snapshot is immutable: whatever happens later — successful or failed
reloads, other connections — connections accepted earlier keep the pair they were given. -/
theorem accepted_undisturbed (expired : Nat → Bool) (evs : List Ev) : ∀ (st : CertSt),
    st.accepted <+: (evs.foldl (step expired) st).accepted := by
  induction evs with
  | nil => intro st; exact List.prefix_refl _
  | cons e evs ih =>
    intro st
    simp only [List.foldl_cons]
    have h1 : st.accepted <+: (step expired st e).accepted := by
      cases e with
      | accept => simp [step, CertSt.accept]
      | reload c k =>
        simp only [step, CertSt.reload]
        cases c <;> cases k <;> simp only <;> try exact List.prefix_refl _
        split <;> exact List.prefix_refl _
    exact List.IsPrefix.trans h1 (ih _)

/-- T18.5 refutation for the *pinned* reload (certificate file read twice): a disk change landing
between the two reads makes the reported information describe a certificate that is not the
active one — replayed on the real code with the sync-point hook (`cert reload_at
reload:after_config`: info=C presented=B) before the repair. -/
theorem pinned_info_not_active :
    let st : CertSt := { active := 0, info := 0 }
    let st' := (st.reloadPinned (fun _ => false) (some 1) (some 1) (some 2)).1
    st'.active = 1 ∧ st'.info = 2 := by decide

/-- non-vacuity: a failed two-file update (certificate replaced alone) followed by the complete one -/
example : ([Ev.reload (some 1) (some 0), .accept, .reload (some 1) (some 1), .accept].foldl (step (fun _ => false))
    { active := 0, info := 0 }).accepted = [0, 1] := by decide

/-! ### the listening server (`Server::listen` on the reloader's acceptor cell)

`Gen.acceptorRead` is regenerated from `server.rs` on every run: where the accept loop reads the cell relative to
`accept()`.  `listen_reads_after_accept` is the obligation the code has to meet; `listener_is_model` then
identifies the real loop's connections with the `accept` of the state machine above, so every theorem of this
file speaks about connections of the listening server, and `first_handshake_after_reload` spells out the clause
"a successful reload is used by every later handshake" for the very next connection. -/

theorem listen_reads_after_accept : Gen.acceptorRead = .afterAccept := by decide

theorem listener_is_model (l : Listener) : (l.conn Gen.acceptorRead).st = l.st.accept := by
  rw [listen_reads_after_accept]; rfl

/-- whatever the loop held before, the first connection after a successful reload is served with the new pair
(and so is every later one, by the same theorem applied to the state it leaves) -/
theorem first_handshake_after_reload (l : Listener) (expired : Nat → Bool) (c : Nat)
    (hok : (l.st.reload expired (some c) (some c)).2 = true) :
    ((l.reload expired (some c) (some c)).conn Gen.acceptorRead).st.accepted.getLast? = some c := by
  rw [listen_reads_after_accept]
  obtain ⟨c', hc, _, _, _, _, hlast⟩ := ok_reload_swaps l.st expired (some c) (some c) hok
  have : c' = c := (Option.some.inj hc).symm
  subst this
  exact hlast

/-- a loop that reads the cell before it waits in `accept()` serves the first connection after a reload with the
previous pair (the excluded shape is refuted, so the obligation is not idle) -/
theorem read_before_accept_serves_stale :
    let l := Listener.start { active := 0, info := 0 }
    ((l.reload (fun _ => false) (some 1) (some 1)).conn .beforeAccept).st.accepted = [0] := by decide

end AnyTLS.C18
