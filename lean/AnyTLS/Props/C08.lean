/-
C08 — end of stream reaches the other side, after all the data.
Proved: the *receive* half (what a session does with a received FIN) and its independence from
the send direction.  The *send* half — a forwarder that sees local end-of-stream emits a FIN
after its data, and finished streams leave the tables — is FALSE of the code (no code path
ever sends FIN); it is kept below as `local_close_propagates`, refuted, and reported by the
e2e scenarios as known findings (KNOWN_FINDINGS.txt).
-/
import AnyTLS.Lemmas.Session
import AnyTLS.Props.C01

namespace AnyTLS.C08
open AnyTLS AnyTLS.Gen

/-- T8.1a: a reader whose channel is closed delivers exactly what is still deliverable and only
then reports end of stream — never earlier, never blocking. -/
theorem closed_reader_read (r : RState) (n : Nat) (hn : n ≠ 0) (hwf : r.WF) (hc : r.chanOpen = false) :
    (r.pending = [] → (r.read n).1 = .eof) ∧
    (r.pending ≠ [] → ∃ b r', r.read n = (.data b, r') ∧ b ≠ [] ∧ b ++ r'.pending = r.pending ∧
        r'.chanOpen = false ∧ r'.WF) := by
  have hs := read_spec r n hn hwf
  cases hr : r.read n with
  | mk out r' =>
    rw [hr] at hs
    cases out with
    | data b =>
      simp only at hs
      obtain ⟨hb, _, hcat, hco, hw⟩ := hs
      constructor
      · intro hp; rw [hp] at hcat; exact absurd (List.append_eq_nil_iff.mp hcat).1 hb
      · intro _; exact ⟨b, r', rfl, hb, hcat, by rw [hco, hc], hw⟩
    | eof =>
      simp only at hs
      constructor
      · intro _; rfl
      · intro hp; exact absurd hs.1 hp
    | block =>
      simp only at hs
      rw [hc] at hs; simp at hs

/-- T8.1 `fin_after_data`: a FIN for a registered stream closes that stream's inbound channel
and keeps everything queued before it: the reader obtains exactly the bytes queued before the
FIN and then end of stream (by `closed_reader_read` and C01's `reads_complete`). -/
theorem fin_after_data (s : Sess) (f : Frame) (hc : f.cmd = .fin) (h : Nat) (o : Obj) (hwf : s.WF)
    (hr : tblGet s.recv f.sid = some h) (ho : s.objs[h]? = some o) :
    ∃ o', (s.handleFrame f).1.objs[h]? = some o' ∧ o'.rd.pending = o.rd.pending ∧
      o'.rd.chanOpen = false ∧ o'.rd.WF := by
  unfold Sess.handleFrame
  simp only [hc]
  have hd : (s.dropRecvEntry f.sid).objs[h]? = some { o with rd := o.rd.closeChan } := by
    unfold Sess.dropRecvEntry
    rw [hr]
    simp [modObj_getElem?, ho]
  have hwfo := hwf.rd_ok h o ho
  unfold Sess.failPendingOpen
  split
  · rename_i i _
    simp only [modObj_getElem?]
    by_cases hih : h = i
    · simp only [hih, if_true]
      rw [← hih, hd]
      refine ⟨_, rfl, ?_, ?_, ?_⟩
      · simp [closeChan_pending]
      · simp [RState.closeChan]
      · simp only [Option.map_some, notifySynack_rd]; exact closeChan_WF o.rd hwfo
    · simp only [hih, if_false]
      exact ⟨_, hd, rfl, rfl, closeChan_WF o.rd hwfo⟩
  · exact ⟨_, hd, rfl, rfl, closeChan_WF o.rd hwfo⟩

/-- T8.2 `fin_releases`: a FIN removes the entry of its stream id from both tables and touches
the entries of no other id. -/
theorem fin_releases (s : Sess) (f : Frame) (hc : f.cmd = .fin) :
    tblGet (s.handleFrame f).1.streams f.sid = none ∧ tblGet (s.handleFrame f).1.recv f.sid = none ∧
    ∀ k, k ≠ f.sid → tblGet (s.handleFrame f).1.streams k = tblGet s.streams k ∧
                      tblGet (s.handleFrame f).1.recv k = tblGet s.recv k := by
  obtain ⟨_, _, _, h⟩ := handleFrame_quiet_tables s f (by rw [hc]; rfl)
  refine ⟨?_, ?_, h⟩
  · unfold Sess.handleFrame; simp [hc, tblGet_remove]
  · unfold Sess.handleFrame; simp [hc, tblGet_remove]

/-- T8.3: the other direction keeps working: a received FIN changes nothing the write path
depends on (closed flag, buffering, buffer, packet counter, scheme, transport), so data can
still be sent on that stream id until this side ends it too. -/
theorem fin_leaves_send_direction (s : Sess) (f : Frame) (hc : f.cmd = .fin) :
    let s' := (s.handleFrame f).1
    s'.closed = s.closed ∧ s'.buffering = s.buffering ∧ s'.buffer = s.buffer ∧
    s'.pktCounter = s.pktCounter ∧ s'.scheme = s.scheme ∧ s'.wire = s.wire ∧ s'.shut = s.shut ∧
    s'.wrBudget = s.wrBudget ∧ s'.sendPadding = s.sendPadding := by
  have key : ∀ (t : Sess) (k : Nat), (t.dropRecvEntry k).failPendingOpen k =
      { t with objs := ((t.dropRecvEntry k).failPendingOpen k).objs } := by
    intro t k
    unfold Sess.failPendingOpen Sess.dropRecvEntry
    split <;> split <;> rfl
  unfold Sess.handleFrame
  simp only [hc]
  rw [key s f.sid]
  exact ⟨rfl, rfl, rfl, rfl, rfl, rfl, rfl, rfl, rfl⟩

/-! ### the send half: full statement, refuted for the current code -/

/-- what a forwarder observes from its local side -/
inductive LocalEv where
  | data (b : Bytes)
  | eof

/-- the frames the forwarders of the *current code* submit for a stream (socks5.rs task2,
http_proxy.rs `to_proxy`, handler.rs task2, the UDP relays): one data frame per chunk read,
and on local end of stream they simply return — no code path submits a FIN -/
def forwarderFrames (sid : Nat) : List LocalEv → List Frame
  | [] => []
  | .data b :: evs => { cmd := .push, sid := sid, data := b } :: forwarderFrames sid evs
  | .eof :: _ => []

/-- T8.4 (full statement, kept): when a forwarder sees local end of stream, a FIN for that
stream follows all previously submitted data. -/
def local_close_propagates : Prop :=
  ∀ (sid : Nat) (evs : List LocalEv), LocalEv.eof ∈ evs →
    ∃ pre, forwarderFrames sid evs = pre ++ [{ cmd := .fin, sid := sid, data := [] }]

/-- T8.4 is false of the current code: the application half-closes after one chunk and no FIN
is ever submitted (replayed on the real code by the e2e scenarios `halfclose` / `targetclose`:
the target / the application receives the bytes and no end of stream; the client keeps the
stream in its tables).  Recorded as known findings. -/
theorem local_close_propagates_refuted : ¬ local_close_propagates := by
  intro h
  obtain ⟨pre, hp⟩ := h 1 [.data [1], .eof] (by simp)
  simp only [forwarderFrames] at hp
  have := congrArg List.getLast? hp
  simp at this

/-- the part of the send half that does hold: the frames submitted carry the data in order -/
theorem forwarder_data_in_order_partial (sid : Nat) (evs : List LocalEv) :
    ∀ f ∈ forwarderFrames sid evs, f.cmd = .push ∧ f.sid = sid := by
  induction evs with
  | nil => intro f hf; simp [forwarderFrames] at hf
  | cons e evs ih =>
    intro f hf
    cases e with
    | data b =>
      simp only [forwarderFrames, List.mem_cons] at hf
      rcases hf with hf | hf
      · subst hf; exact ⟨rfl, rfl⟩
      · exact ih f hf
    | eof => simp [forwarderFrames] at hf

/-! ### the peer's FIN at the server: from the stream to the target (M14, `Model/Relay.lean`)

What a relay loop's task does once the loop is over is regenerated from the source (`RelaySite.atEnd`).  For the
server's stream → target loop the end of the stream (the peer's FIN, `fin_after_data`) has to become the end of the
target's input.  (The five other loops end silently: those are the known findings above and carry no obligation.) -/

/-- Obligation on the code: the server's stream → target task shuts the target's write side down after its loop (the
split write half is not shut down by being dropped: the defect repaired in `8509bd3`). -/
theorem gen_server_upstream_shuts_target :
    (Gen.relaySites.find? (fun s => s.file == "src/server/handler.rs" && s.write == .writeAll)).map (·.atEnd)
      = some .shutdownSink := by decide

/-- T8.5: for every relay loop of the code that does something at its end: whenever the loop ends because its source
ended — for every sequence of reads, every buffer content, every short-write behaviour of the sink — the sink's peer
has received every byte the source produced, in order, once, and the end of stream after them (nothing is written
after it, so never before them). -/
theorem end_after_all_data (s : Gen.RelaySite) (hs : s ∈ Gen.relaySites) (hend : s.atEnd ≠ .nothing)
    (reads : List Bytes) (buf : Bytes) (caps : List Nat)
    (hdone : (Relay.run s.write s.slice buf reads caps).sourceDone = true) :
    Relay.finish s.atEnd (Relay.run s.write s.slice buf reads caps) = { bytes := flatten reads, ended := true } := by
  unfold Relay.finish
  rw [C01.every_relay_loop_complete s hs reads buf caps hdone]
  cases h : s.atEnd <;> simp_all

/-- the excluded shape: a task that ends silently never ends the sink's input, whatever it delivered -/
theorem silent_end_never_reaches_sink (o : Relay.Out) : (Relay.finish .nothing o).ended = false := by rfl

/-- non-vacuity: the server's stream → target site exists, ends its sink, and a run of it ends by its source -/
example : ∃ s ∈ Gen.relaySites, s.atEnd ≠ .nothing ∧
    (Relay.run s.write s.slice [] [[1, 2, 3], [4, 5]] [2, 9, 1, 1]).sourceDone = true :=
  ⟨⟨"src/server/handler.rs", .writeAll, .prefixN, .shutdownSink⟩, by decide, by decide, by decide⟩

/-- non-vacuity: stream 5 of the example server state, three queued bytes, then FIN -/
example :
    let s := (C02.exS.handleFrame { cmd := .push, sid := 5, data := [1, 2, 3] }).1
    ((((s.handleFrame { cmd := .fin, sid := 5, data := [] }).1.objs[1]?).map (·.rd.pending)) = some [1, 2, 3]) := by
  decide

end AnyTLS.C08
