/-
C19 — a padding scheme pushed by the server takes effect on the client.
Model: `Model/Session.lean` (UpdatePaddingScheme and Settings arms), `Model/Proc.lean`
(process-wide default, session creation).  `Md5.hex` is used as an opaque function.
-/
import AnyTLS.Model.Proc
import AnyTLS.Props.C05

namespace AnyTLS.C19
open AnyTLS AnyTLS.Gen

def pushFrame (raw : Bytes) : Frame := { cmd := .updatePaddingScheme, sid := 0, data := raw }

/-- T19.1a: a parseable push makes the session adopt exactly the pushed scheme (and announce
its digest from now on), stores it as the process-wide default, and disturbs nothing else:
the session stays open, no stream, buffer, counter or wire byte changes. -/
theorem push_adopts (s : Sess) (raw : Bytes) (sch : Scheme) (hc : s.isClient = true) (hne : raw ≠ [])
    (hp : Scheme.parse raw = some sch) :
    let r := s.handleFrame (pushFrame raw)
    r.2 = .continue ∧ r.1.scheme = sch ∧ r.1.schemeMd5 = Md5.hex raw ∧ r.1.pushed = s.pushed ++ [sch] ∧
    r.1.closed = s.closed ∧ r.1.streams = s.streams ∧ r.1.recv = s.recv ∧ r.1.objs = s.objs ∧
    r.1.wire = s.wire ∧ r.1.pktCounter = s.pktCounter ∧ r.1.buffer = s.buffer ∧ r.1.sendPadding = s.sendPadding := by
  have he : raw.isEmpty = false := by cases raw <;> simp_all
  simp [Sess.handleFrame, pushFrame, hc, he, hp]

/-- T19.1b `push_switches_session`: every packet the session sends after the push is shaped by
the *pushed* scheme: its write lengths are accepted by the statement's acceptor for the
pushed scheme's line (C05's theorems instantiated at the adopted scheme). -/
theorem push_switches_session (s : Sess) (raw : Bytes) (sch : Scheme) (hc : s.isClient = true) (hne : raw ≠ [])
    (hp : Scheme.parse raw = some sch) (hpad : s.sendPadding = true) (hb : s.wrBudget = none) (hs : s.shut = false)
    (payload : Bytes) :
    let s' := (s.handleFrame (pushFrame raw)).1
    let k := s'.pktCounter + Gen.pktFetchOffset
    ∃ rs, (s'.writeWithPadding payload).1.wire = s'.wire ++ writePacket true sch k rs payload ∧
      (k < sch.stop → sch.specs k ≠ [] →
        Allowed (sch.specs k) payload.length ((writePacket true sch k rs payload).map List.length)) ∧
      (k ≥ sch.stop → writePacket true sch k rs payload = [payload]) := by
  obtain ⟨_, h2, _, _, _, _, _, _, _, _, _, h12⟩ := push_adopts s raw sch hc hne hp
  have he : raw.isEmpty = false := by cases raw <;> simp_all
  have hb' : (s.handleFrame (pushFrame raw)).1.wrBudget = none := by
    simp [Sess.handleFrame, pushFrame, hc, he, hp, hb]
  have hs' : (s.handleFrame (pushFrame raw)).1.shut = false := by
    simp [Sess.handleFrame, pushFrame, hc, he, hp, hs]
  obtain ⟨rs, hw, _, _⟩ := C05.packet_index (s.handleFrame (pushFrame raw)).1 payload (by rw [h12, hpad]) hb' hs'
  rw [h2] at hw
  exact ⟨rs, hw, fun hk hne' => C05.shape_allowed sch _ rs payload hk hne',
    fun hk => C05.no_padding_from_stop sch _ rs payload hk⟩

/-- T19.4 `bad_push_ignored`: a pushed scheme the client cannot parse — and an empty payload,
and any push received by a server — changes nothing at all; the session carries on. -/
theorem bad_push_ignored (s : Sess) (raw : Bytes) (h : Scheme.parse raw = none ∨ raw = [] ∨ s.isClient = false) :
    s.handleFrame (pushFrame raw) = (s, .continue) := by
  rcases h with h | h | h
  · simp [Sess.handleFrame, pushFrame, h]
  · simp [Sess.handleFrame, pushFrame, h]
  · simp [Sess.handleFrame, pushFrame, h]

/-- T19.2a: the process-wide default after a parseable push is the pushed scheme. -/
theorem push_sets_default (p : Proc) (i : Nat) (s : Sess) (raw : Bytes) (sch : Scheme)
    (hi : p.sessions[i]? = some s) (hc : s.isClient = true) (hne : raw ≠ []) (hp : Scheme.parse raw = some sch) :
    (p.frame i (pushFrame raw)).global = sch := by
  obtain ⟨_, _, _, h4, _⟩ := push_adopts s raw sch hc hne hp
  simp only [Proc.frame, hi, absorbScheme]
  rw [h4]
  simp

/-- T19.2b `push_sticks`: every session opened afterwards is given the process-wide default: it
uses that scheme and announces its digest in its Settings frame. -/
theorem new_session_uses_default (p : Proc) (seed : UInt64) :
    ∃ s, (p.newSession seed).sessions = p.sessions ++ [s] ∧ s.scheme = p.global ∧
      s.schemeMd5 = Md5.hex p.global.raw ∧ (p.newSession seed).global = p.global := by
  refine ⟨_, rfl, ?_, ?_, rfl⟩
  · unfold Sess.startClient Sess.writeFrame
    simp only [Sess.initClient]
    split
    · rfl
    · split
      · rfl
      · simp
  · unfold Sess.startClient Sess.writeFrame
    simp only [Sess.initClient]
    split
    · rfl
    · split
      · rfl
      · simp

/-- T19.2c: …so that it is not pushed again — a server whose own digest equals the announced one
sends no UpdatePaddingScheme (it pushes exactly when they differ). -/
theorem server_pushes_iff_differs (s : Sess) (m : List (Bytes × Bytes)) (cm : Bytes)
    (hm : mapGet m (asciiBytes "padding-md5") = some cm) :
    (cm = asciiBytes s.schemeMd5 → s.maybePushScheme m = (s, .ok)) ∧
    (cm ≠ asciiBytes s.schemeMd5 →
      s.maybePushScheme m = s.writeFrame { cmd := .updatePaddingScheme, sid := 0, data := s.scheme.raw }) := by
  unfold Sess.maybePushScheme
  rw [hm]
  constructor
  · intro h; simp [h]
  · intro h; simp [h]

/-- process histories: new sessions, and frames received by sessions -/
inductive POp where
  | newSession (seed : UInt64)
  | frame (i : Nat) (f : Frame)

def runProc : Proc → List POp → Proc
  | p, [] => p
  | p, .newSession seed :: ops => runProc (p.newSession seed) ops
  | p, .frame i f :: ops => runProc (p.frame i f) ops

/-- T19.3: *every* push counts — for any history whatsoever before it (any number of earlier
pushes, sessions, frames; whether or not the built-in default was ever used), a parseable push
received by a client session is the process default right after it, and a session opened at
any later moment before the next push uses and announces it. -/
theorem nth_push_takes_effect (p0 : Proc) (hist : List POp) (i : Nat) (s : Sess) (raw : Bytes) (sch : Scheme)
    (seed : UInt64)
    (hi : (runProc p0 hist).sessions[i]? = some s) (hc : s.isClient = true) (hne : raw ≠ [])
    (hp : Scheme.parse raw = some sch) :
    let p := ((runProc p0 hist).frame i (pushFrame raw))
    p.global = sch ∧ ∃ t, (p.newSession seed).sessions = p.sessions ++ [t] ∧ t.scheme = sch ∧
      t.schemeMd5 = Md5.hex sch.raw := by
  have hg := push_sets_default (runProc p0 hist) i s raw sch hi hc hne hp
  refine ⟨hg, ?_⟩
  obtain ⟨t, h1, h2, h3, _⟩ := new_session_uses_default ((runProc p0 hist).frame i (pushFrame raw)) seed
  exact ⟨t, h1, by rw [h2, hg], by rw [h3, hg]⟩

/-- refutation for the *pinned* tree: the process-wide default was a write-once cell -/
def pinnedUpdate (cell : Option Scheme) (sch : Scheme) : Option Scheme × Bool :=
  match cell with
  | some old => (some old, false)     -- `OnceLock::set` fails: "failed to update default factory"
  | none => (some sch, true)

theorem pinned_second_push_lost (a b : Scheme) (h : a ≠ b) :
    (pinnedUpdate (pinnedUpdate none a).1 b).1 ≠ some b := by
  simp [pinnedUpdate]; exact h

/-- non-vacuity: a small parseable scheme -/
example : (Scheme.parse [115, 116, 111, 112, 61, 50]).isSome = true := by decide +kernel

end AnyTLS.C19
