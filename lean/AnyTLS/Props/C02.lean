/-
C02 — streams sharing a session never see each other's bytes.
Model: `AnyTLS/Model/Session.lean` (receive side: `Sess.handleFrame`, `Sess.openStream`).
Helper lemmas: `AnyTLS/Lemmas/Session.lean`.
-/
import AnyTLS.Lemmas.Session

namespace AnyTLS.C02
open AnyTLS AnyTLS.Gen

/-- everything the session holds for stream id `k`: its object (inbound queue, reader
buffer, channel state, pending-open slot, closed flag) through the receive table and through
the stream table -/
def view (s : Sess) (k : Nat) : Option Obj × Option Obj :=
  ((tblGet s.recv k).bind (fun h => s.objs[h]?), (tblGet s.streams k).bind (fun h => s.objs[h]?))

/-- T2.1 `no_crosstalk` (one frame): a frame addressed to stream `f.sid` — data, open, close,
open-acknowledgement, padding, whatever its id is known, unknown or finished — leaves the
complete state of every *other* stream id untouched.  (Fatal session-level commands are the
subject of C09; Settings/HeartRequest only write session-level replies — see
`quiet_or_session_level`.) -/
theorem no_crosstalk (s : Sess) (f : Frame) (hwf : s.WF) (hq : quietCmd f.cmd = true)
    (k : Nat) (hk : k ≠ f.sid) :
    view (s.handleFrame f).1 k = view s k := by
  obtain ⟨_, _, _, htab⟩ := handleFrame_quiet_tables s f hq
  obtain ⟨hs, hr⟩ := htab k hk
  unfold view
  rw [hs, hr]
  have obj_same : ∀ h, (tblGet s.recv k = some h ∨ tblGet s.streams k = some h) →
      (s.handleFrame f).1.objs[h]? = s.objs[h]? := by
    intro h hh
    apply handleFrame_quiet_objs s f hq h
    · intro e; exact hk (WF_inj hwf hh (Or.inl e))
    · intro e; exact hk (WF_inj hwf hh (Or.inr e))
    · rcases hh with hh | hh
      · exact WF_lt hwf hh
      · exact WF_lt' hwf hh
  congr 1
  · cases hg : tblGet s.recv k with
    | none => rfl
    | some h => simp [obj_same h (Or.inl hg)]
  · cases hg : tblGet s.streams k with
    | none => rfl
    | some h => simp [obj_same h (Or.inr hg)]

/-- the commands that are not "quiet" are exactly the session-level ones -/
theorem quiet_or_session_level (c : Cmd) :
    quietCmd c = true ∨ c = .settings ∨ c = .alert ∨ c = .heartRequest := by
  cases c <;> simp [quietCmd]

/-- frames that never touch stream `k` -/
def avoids (k : Nat) (fs : List Frame) : Prop := ∀ f ∈ fs, quietCmd f.cmd = true ∧ f.sid ≠ k

/-- T2.6 `no_crosstalk` (any history): any sequence of frames addressed to other ids, in any
order (open/data/close of ids never opened, not yet opened, already finished, reused), leaves
stream `k` exactly as it was. -/
theorem no_crosstalk_history (fs : List Frame) : ∀ (s : Sess), s.WF → ∀ k, avoids k fs →
    (s.handleFrames fs).2 = .continue ∧ (s.handleFrames fs).1.WF ∧
    view (s.handleFrames fs).1 k = view s k := by
  induction fs with
  | nil => intro s hwf k _; exact ⟨rfl, hwf, rfl⟩
  | cons f fs ih =>
    intro s hwf k hav
    obtain ⟨hq, hne⟩ := hav f List.mem_cons_self
    have hav' : avoids k fs := fun g hg => hav g (List.mem_cons_of_mem _ hg)
    obtain ⟨hcont, _, _, _⟩ := handleFrame_quiet_tables s f hq
    have hwf' := handleFrame_quiet_WF s f hq hwf
    have hv := no_crosstalk s f hwf hq k (fun e => hne e.symm)
    unfold Sess.handleFrames
    cases hres : s.handleFrame f with
    | mk s' o =>
      rw [hres] at hcont hwf' hv
      simp only at hcont
      subst hcont
      simp only
      obtain ⟨a, b, c⟩ := ih s' hwf' k hav'
      exact ⟨a, b, by rw [c, hv]⟩

/-- T2.2a: data or an open-acknowledgement for an id that is not registered changes nothing. -/
theorem unknown_push_inert (s : Sess) (f : Frame) (hc : f.cmd = .push)
    (h : tblGet s.recv f.sid = none) : (s.handleFrame f).1 = s :=
  handleFrame_push_unknown s f hc h

theorem unknown_synack_inert (s : Sess) (f : Frame) (hc : f.cmd = .synAck)
    (h : tblGet s.streams f.sid = none) : (s.handleFrame f).1 = s := by
  unfold Sess.handleFrame
  simp only [hc, h]
  split <;> rfl

/-- T2.2b: a close frame for an id that is not registered leaves every lookup and every
object as they were. -/
theorem unknown_fin_inert (s : Sess) (f : Frame) (hc : f.cmd = .fin)
    (h1 : tblGet s.recv f.sid = none) (h2 : tblGet s.streams f.sid = none) :
    (∀ k, view (s.handleFrame f).1 k = view s k) := by
  intro k
  unfold Sess.handleFrame view
  simp only [hc]
  have hd : s.dropRecvEntry f.sid = s := by unfold Sess.dropRecvEntry; rw [h1]
  have hf : s.failPendingOpen f.sid = s := by unfold Sess.failPendingOpen; rw [h2]
  rw [hd, hf]
  simp only [tblGet_remove]
  by_cases hk : k = f.sid
  · subst hk; simp [h1, h2]
  · simp [hk]

/-- T2.3: data for a registered id appends exactly its payload to exactly that stream's
inbound queue and changes neither table. -/
theorem push_appends (s : Sess) (f : Frame) (hc : f.cmd = .push) (h : Nat)
    (hr : tblGet s.recv f.sid = some h) :
    (s.handleFrame f).1.objs[h]? = (s.objs[h]?).map (fun o => { o with rd := o.rd.push f.data }) ∧
    (s.handleFrame f).1.recv = s.recv ∧ (s.handleFrame f).1.streams = s.streams :=
  handleFrame_push s f hc h hr

/-- T2.4a: `open_stream` on an open session registers the allocator's current value as the
new stream id and advances the allocator; on a closed session it does nothing. -/
theorem open_advances (s : Sess) (hcl : s.closed = false) :
    (s.openStream).1.nextSid = s.nextSid + 1 := by
  unfold Sess.openStream
  simp only [hcl, Bool.false_eq_true, if_false]
  split <;> (have hh := writeFrame_nextSid' (by assumption : Sess.writeFrame _ _ = (_, _)); simpa using hh)

theorem open_closed (s : Sess) (hcl : s.closed = true) : s.openStream = (s, .errClosed, none) := by
  unfold Sess.openStream
  simp [hcl]

/-- operations of a session history -/
inductive Op where
  | open
  | frame (f : Frame)

/-- the stream ids handed out by `open_stream` along a history, oldest first -/
def allocated : Sess → List Op → List Nat
  | _, [] => []
  | s, .open :: ops =>
    if s.closed then allocated s ops else s.nextSid :: allocated (s.openStream).1 ops
  | s, .frame f :: ops => allocated (s.handleFrame f).1 ops

theorem allocated_ge (ops : List Op) : ∀ (s : Sess), ∀ i ∈ allocated s ops, s.nextSid ≤ i := by
  induction ops with
  | nil => intro s i hi; simp [allocated] at hi
  | cons op ops ih =>
    intro s i hi
    cases op with
    | «open» =>
      unfold allocated at hi
      by_cases hc : s.closed = true
      · simp only [hc, if_true] at hi; exact ih s i hi
      · simp only [hc, Bool.false_eq_true, if_false, List.mem_cons] at hi
        rcases hi with hi | hi
        · omega
        · have := ih _ i hi
          rw [open_advances s (by simpa using hc)] at this
          omega
    | frame f =>
      unfold allocated at hi
      have := ih _ i hi
      rw [handleFrame_nextSid] at this
      exact this

/-- T2.4 `open_fresh`: along every history of opens and received frames (of every kind), the
ids handed out are strictly increasing — an id is never reused within a session (as long as
the 32-bit allocator does not wrap, i.e. fewer than 2^32 opens). -/
theorem ids_never_reused (ops : List Op) : ∀ (s : Sess), (allocated s ops).Pairwise (· < ·) := by
  induction ops with
  | nil => intro s; simp [allocated]
  | cons op ops ih =>
    intro s
    cases op with
    | «open» =>
      unfold allocated
      by_cases hc : s.closed = true
      · simp only [hc, if_true]; exact ih s
      · simp only [hc, Bool.false_eq_true, if_false, List.pairwise_cons]
        refine ⟨?_, ih _⟩
        intro i hi
        have := allocated_ge ops _ i hi
        rw [open_advances s (by simpa using hc)] at this
        omega
    | frame f => unfold allocated; exact ih _

/-- non-vacuity: a well-formed server state with two streams; a PSH for stream 5 leaves
stream 3 as it was -/
def exS : Sess :=
  { Sess.initServer { raw := [], map := [], stop := 0 } "" 0 with
    objs := [{ sid := 3 }, { sid := 5 }], recv := [(3, 0), (5, 1)], streams := [(3, 0), (5, 1)] }

example : view (exS.handleFrame { cmd := .push, sid := 5, data := [1, 2] }).1 3 = view exS 3 := by decide
example : ((view (exS.handleFrame { cmd := .push, sid := 5, data := [1, 2] }).1 5).1.map (·.rd.queue))
    = some [[1, 2]] := by decide

end AnyTLS.C02
