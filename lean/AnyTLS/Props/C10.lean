/-
C10 — opening a stream reports the server's verdict exactly once.
Model: `Model/Open.lean` (client wait), `Model/Session.lean` (pending-open slot), and the
server handler's answer rule below.
-/
import AnyTLS.Model.Open
import AnyTLS.Lemmas.Session
import AnyTLS.Props.C02
import AnyTLS.Props.C11

namespace AnyTLS.C10
open AnyTLS AnyTLS.Gen

/-- Gen obligation: the wait is 30 s. -/
theorem gen_timeout : timeoutMs = 30000 := by decide

/-! ### exactly once -/

theorem fireTimeouts_keeps (st : OpenSt) (i : Nat) (r : Req) (x : OpenRes × Nat)
    (hr : st.reqs[i]? = some r) (hd : r.done = some x) :
    ∃ r', (fireTimeouts st).reqs[i]? = some r' ∧ r'.done = some x ∧ r'.h = r.h ∧ r'.deadline = r.deadline := by
  refine ⟨r, ?_, hd, rfl, rfl⟩
  simp [fireTimeouts, hr, hd]

theorem collect_keeps (st : OpenSt) (i : Nat) (r : Req) (x : OpenRes × Nat)
    (hr : st.reqs[i]? = some r) (hd : r.done = some x) :
    ∃ r', (collect st).reqs[i]? = some r' ∧ r'.done = some x ∧ r'.h = r.h ∧ r'.deadline = r.deadline := by
  refine ⟨r, ?_, hd, rfl, rfl⟩
  simp [collect, hr, hd]

/-- operations of the model after the requests were started -/
inductive Ev where
  | feed (bytes : Bytes)
  | peerEnd
  | ownerClose
  | advance (ms : Nat)
  | start (dest : Bytes)

def step (st : OpenSt) : Ev → OpenSt
  | .feed b => st.feed b
  | .peerEnd => st.sessionEnd false
  | .ownerClose => st.sessionEnd true
  | .advance ms => st.advance ms
  | .start d => st.start d

theorem step_keeps (st : OpenSt) (e : Ev) (i : Nat) (r : Req) (x : OpenRes × Nat)
    (hr : st.reqs[i]? = some r) (hd : r.done = some x) :
    ∃ r', (step st e).reqs[i]? = some r' ∧ r'.done = some x ∧ r'.h = r.h ∧ r'.deadline = r.deadline := by
  cases e with
  | feed b =>
    obtain ⟨r1, h1, d1, a1, b1⟩ := fireTimeouts_keeps st i r x hr hd
    obtain ⟨r2, h2, d2, a2, b2⟩ := collect_keeps { fireTimeouts st with s := (fireTimeouts st).s.feedBytes b } i r1 x h1 d1
    exact ⟨r2, h2, d2, by rw [a2, a1], by rw [b2, b1]⟩
  | peerEnd =>
    obtain ⟨r1, h1, d1, a1, b1⟩ := fireTimeouts_keeps st i r x hr hd
    obtain ⟨r2, h2, d2, a2, b2⟩ := collect_keeps { fireTimeouts st with s := (fireTimeouts st).s.feedEnd } i r1 x h1 d1
    exact ⟨r2, by simpa [step, OpenSt.sessionEnd] using h2, d2, by rw [a2, a1], by rw [b2, b1]⟩
  | ownerClose =>
    obtain ⟨r1, h1, d1, a1, b1⟩ := fireTimeouts_keeps st i r x hr hd
    obtain ⟨r2, h2, d2, a2, b2⟩ := collect_keeps { fireTimeouts st with s := (fireTimeouts st).s.close } i r1 x h1 d1
    exact ⟨r2, by simpa [step, OpenSt.sessionEnd] using h2, d2, by rw [a2, a1], by rw [b2, b1]⟩
  | advance ms =>
    exact fireTimeouts_keeps { st with now := st.now + ms } i r x hr hd
  | start d =>
    simp only [step, OpenSt.start]
    split
    · rename_i s1 h _
      have hlt : i < st.reqs.length := (List.getElem?_eq_some_iff.mp hr).1
      have hr' : (st.reqs ++ [({ h := h, deadline := st.now + timeoutMs } : Req)])[i]? = some r := by
        rw [List.getElem?_append_left hlt]; exact hr
      exact collect_keeps _ i r x hr' hd
    · exact ⟨r, hr, hd, rfl, rfl⟩

/-- T10.1 `first_outcome_wins`: once a request has an outcome, no later event of any kind —
a duplicated or contradicting SYNACK, a SYNACK after the timeout, the session dying, more
time passing, other requests starting — ever changes it: every request completes at most
once, with the first resolving event. -/
theorem first_outcome_wins (evs : List Ev) : ∀ (st : OpenSt) (i : Nat) (r : Req) (x : OpenRes × Nat),
    st.reqs[i]? = some r → r.done = some x →
    ∃ r', (evs.foldl step st).reqs[i]? = some r' ∧ r'.done = some x := by
  induction evs with
  | nil => intro st i r x hr hd; exact ⟨r, hr, hd⟩
  | cons e evs ih =>
    intro st i r x hr hd
    obtain ⟨r1, h1, d1, _, _⟩ := step_keeps st e i r x hr hd
    exact ih (step st e) i r1 x h1 d1

/-- T10.2 `outcome_total`: every request has an outcome once its 30 s have passed — it
completes at least once, whatever happened or did not happen (no answer, answers for other
ids only, answers that came too late). -/
theorem outcome_total (st : OpenSt) (i : Nat) (r : Req) (hr : st.reqs[i]? = some r) (ms : Nat)
    (hlate : r.deadline < st.now + ms) : ((st.advance ms).outcome i).isSome = true := by
  unfold OpenSt.outcome OpenSt.advance
  simp only [fireTimeouts, List.getElem?_map, hr, Option.map_some, Option.bind_some]
  cases hd : r.done with
  | some x => simp [hd]
  | none => simp [hd, hlate]

/-- a timeout outcome is only ever produced when the deadline has passed with the slot unresolved -/
theorem timeout_only_after_deadline (st : OpenSt) (i : Nat) (r r' : Req) (t : Nat)
    (hr : st.reqs[i]? = some r) (hn : r.done = none)
    (hr' : (fireTimeouts st).reqs[i]? = some r') (hd : r'.done = some (.timeout, t)) :
    r.deadline < st.now ∧ t = r.deadline := by
  simp only [fireTimeouts, List.getElem?_map, hr, Option.map_some, Option.some.injEq] at hr'
  rw [hn] at hr'
  simp only at hr'
  by_cases h : r.deadline < st.now
  · simp only [h, if_true] at hr'
    rw [← hr'] at hd
    simp at hd
    exact ⟨h, hd.symm⟩
  · simp only [h, if_false] at hr'
    rw [← hr', hn] at hd; cases hd

/-! ### success only on the server's word -/

/-- T10.3a: the outcome collected from a slot is `ok` exactly when the slot holds the server's
positive acknowledgement; an error text is reported as the server sent it. -/
theorem verdict_ok_iff (sy : SynSt) : verdictOf sy = some .ok ↔ sy = .ok := by
  cases sy with
  | pending => simp [verdictOf]
  | ok => simp [verdictOf]
  | err m =>
    simp only [verdictOf]
    split
    · simp
    · split <;> simp

/-- T10.3b: a slot only ever becomes "acknowledged" by being told so: `notify_synack` turns a
pending slot into exactly what it is given and never changes a resolved one. -/
theorem notify_first_wins (o : Obj) (r : SynSt) :
    (o.synack = .pending → (o.notifySynack r).synack = r) ∧
    (o.synack ≠ .pending → (o.notifySynack r).synack = o.synack) := by
  unfold Obj.notifySynack
  constructor
  · intro h; simp [h]
  · intro h
    split
    · rename_i hp; exact absurd hp h
    · rfl

/-- T10.3c: a SYNACK carrying a failure text never makes any request succeed: no slot that was
not already acknowledged becomes acknowledged (the addressed slot receives the server's
reason instead). -/
theorem synack_error_never_ok (s : Sess) (f : Frame) (hc : f.cmd = .synAck) (hne : f.data ≠ [])
    (h : Nat) (o o' : Obj) (ho : s.objs[h]? = some o) (ho' : (s.handleFrame f).1.objs[h]? = some o')
    (hnot : o.synack ≠ .ok) : o'.synack ≠ .ok := by
  have hde : f.data.isEmpty = false := by cases hd : f.data <;> simp_all
  unfold Sess.handleFrame at ho'
  simp only [hc, hde, Bool.not_false, if_true] at ho'
  have same : s.objs[h]? = some o' → o'.synack ≠ .ok := by
    intro e; rw [ho] at e; injection e with e; rw [← e]; exact hnot
  split at ho'
  · split at ho'
    · rename_i i _
      rw [modObj_getElem?] at ho'
      by_cases hih : h = i
      · simp only [hih, if_true] at ho'
        rw [← hih, ho] at ho'
        simp only [Option.map_some, Option.some.injEq] at ho'
        rw [← ho']
        unfold Obj.notifySynack
        split
        · simp
        · exact hnot
      · simp only [hih, if_false] at ho'
        exact same ho'
    · exact same ho'
  · exact same ho'

/-- T10.3d: the session dying never makes a request succeed: `close` only ever fails pending
opens. -/
theorem close_never_ok (s : Sess) (h : Nat) (o o' : Obj) (ho : s.objs[h]? = some o)
    (ho' : s.close.objs[h]? = some o') (hnot : o.synack ≠ .ok) : o'.synack ≠ .ok := by
  unfold Sess.close at ho'
  split at ho'
  · rw [ho] at ho'; injection ho' with e; rw [← e]; exact hnot
  · simp only [List.getElem?_mapIdx, ho, Option.map_some, Option.some.injEq] at ho'
    rw [← ho']
    have key : ∀ (x : Obj), x.synack ≠ .ok → (x.closeWithError.notifySynack (.err "Protocol error: Session closed")).synack ≠ .ok := by
      intro x hx
      unfold Obj.notifySynack Obj.closeWithError
      split
      · simp
      · exact hx
    split <;> split <;> first | exact key o hnot | exact hnot

/-- T10.5: slots of different stream ids are independent (instance of C02 `no_crosstalk`): any
number of racing opens each get their own verdict. -/
theorem slots_independent (s : Sess) (f : Frame) (hwf : s.WF) (hq : quietCmd f.cmd = true)
    (k : Nat) (hk : k ≠ f.sid) : C02.view (s.handleFrame f).1 k = C02.view s k :=
  C02.no_crosstalk s f hwf hq k hk

/-! ### the server's answer rule (src/server/handler.rs) -/

inductive Dial where
  | connected
  | failed (msg : String)
  | timedOut
  deriving Repr, DecidableEq

/-- frames the handler writes for a stream once the dial has returned, and whether forwarding
between stream and target starts -/
def serverAnswer (peerVersion sid : Nat) (d : Dial) : List Frame × Bool :=
  match d with
  | .connected => (if peerVersion ≥ 2 then [{ cmd := .synAck, sid := sid, data := [] }] else [], true)
  | .failed msg =>
    (if peerVersion ≥ 2 then [{ cmd := .synAck, sid := sid, data := asciiBytes "Failed to connect to " ++ asciiBytes msg }] else [], false)
  | .timedOut => (if peerVersion ≥ 2 then [{ cmd := .synAck, sid := sid, data := asciiBytes "Connection timeout" }] else [], false)

/-- T10.3e `ok_only_after_connect`: the server acknowledges positively, and starts forwarding,
only after it has connected to the target; a failed or timed-out dial is answered with a
non-empty reason and nothing is forwarded. -/
theorem ok_only_after_connect (pv sid : Nat) (d : Dial) :
    ((∃ f ∈ (serverAnswer pv sid d).1, f.cmd = .synAck ∧ f.data = []) → d = .connected) ∧
    ((serverAnswer pv sid d).2 = true ↔ d = .connected) := by
  cases d with
  | connected => simp [serverAnswer]
  | failed msg =>
    simp only [serverAnswer]
    constructor
    · rintro ⟨f, hf, _, hd⟩
      split at hf
      · simp at hf; rw [hf] at hd; simp [asciiBytes] at hd
      · simp at hf
    · simp
  | timedOut =>
    simp only [serverAnswer]
    constructor
    · rintro ⟨f, hf, _, hd⟩
      split at hf
      · simp at hf; rw [hf] at hd; simp [asciiBytes] at hd
      · simp at hf
    · simp

/-- T10.6 `answer_finds_pending_open` (interleaving model M13): the step that submits a stream's
SYN registers the stream in both tables, so an answer that arrives at ANY later moment — also while
the opener is still inside the SYN write — finds the pending open (and `first_outcome_wins` applies). -/
theorem answer_finds_pending_open (cs cs' : CS) (t : Nat) (hpc : (cs.task t).pc = .openChecked) (hm : micro cs t = some cs') :
    tblGet cs'.s.streams cs.s.nextSid = some cs.s.objs.length ∧ tblGet cs'.s.recv cs.s.nextSid = some cs.s.objs.length ∧
    (cs'.task t).submitted = (cs.task t).submitted ++ [synBytes cs.s.nextSid] :=
  let h := AnyTLS.C11.registered_before_syn cs cs' t hpc hm
  ⟨h.1, h.2.1, h.2.2.2.1⟩

end AnyTLS.C10
