/-
C03 — frame encoding is a faithful, chunking-independent bijection.
Only property theorems and non-vacuity examples live here; helper lemmas are in
`AnyTLS/Lemmas/Frame.lean`.  Model: `AnyTLS/Model/Frame.lean` (+ generated `Gen.lean`).
-/
import AnyTLS.Lemmas.Frame

namespace AnyTLS.C03
open AnyTLS AnyTLS.Gen

/-- Gen obligation: the header is 7 bytes (the model's pattern match relies on it). -/
theorem gen_headerSize : Gen.headerSize = 7 := by decide

/-- T3.2a: `Command::from(cmd as u8) = cmd` for every command. -/
theorem ofByte_toByte (c : Cmd) : Cmd.ofByte c.toByte = c := by cases c <;> rfl

/-- T3.2b: every command discriminant is a byte. -/
theorem toByte_lt (c : Cmd) : c.toByte < 256 := by cases c <;> decide

/-- T3.2c: every byte that is not the discriminant of a command decodes to the inert
padding command (whole finite table, by kernel evaluation). -/
theorem unknown_is_waste :
    ∀ b : Fin 256, (∀ c ∈ Cmd.all, c.toByte ≠ b.val) → Cmd.ofByte b.val = Cmd.waste := by
  decide +kernel

/-- T3.2d: the command discriminants are pairwise distinct. -/
theorem toByte_injective (c d : Cmd) (h : c.toByte = d.toByte) : c = d := by
  have := congrArg Cmd.ofByte h
  simpa [ofByte_toByte] using this

/-- T3.1 `decode_encode`: every frame with a payload that fits the length field encodes, and
decoding the encoding (followed by anything) yields the same command, stream id and
payload and leaves exactly what followed. -/
theorem decode_encode (f : Frame) (rest : Bytes)
    (hs : f.sid < 4294967296) (hl : f.data.length ≤ 65535) :
    ∃ bs, encode f = some bs ∧ decodeStep (bs ++ rest) = some (f, rest) := by
  refine ⟨header f.cmd.toByte f.sid f.data.length ++ f.data, ?_, ?_⟩
  · simp [encode]; omega
  · have := decodeStep_header f.cmd.toByte f.sid f.data rest (toByte_lt _) hs (by omega)
    rw [this, ofByte_toByte]

/-- the length field of an encoded frame (bytes 5 and 6) -/
def lenField (bs : Bytes) : Nat := rd16 (bs.getD 5 0) (bs.getD 6 0)

/-- T3.6 `encode_header_exact`: the encoder never emits a header whose length field differs
from the payload that follows it, and it refuses (emitting nothing) exactly the payloads that
do not fit. -/
theorem encode_header_exact (f : Frame) :
    (∀ bs, encode f = some bs →
      bs.length = 7 + f.data.length ∧ bs.drop 7 = f.data ∧ lenField bs = f.data.length) ∧
    (encode f = none ↔ f.data.length > 65535) := by
  constructor
  · intro bs h
    unfold encode at h
    split at h
    · cases h
    · rename_i hl
      injection h with h; subst h
      obtain ⟨a, b, hab, hr⟩ := rd16_be16 f.data.length (by omega)
      simp only [header, be32, hab, lenField]
      refine ⟨by simp; omega, by simp, ?_⟩
      simpa using hr
  · simp [encode]

/-- T3.6 refutation for the *pinned* encoder (`put_u16(len as u16)` then all the bytes):
for every 65 536-byte payload the header announces 0 bytes and 65 536 bytes follow. -/
theorem encodeTrunc_refuted (f : Frame) (h : f.data.length = 65536) :
    (encodeTrunc f).drop 7 = f.data ∧ lenField (encodeTrunc f) = 0 := by
  simp only [encodeTrunc, header, be32, be16, toU16, h, lenField]
  constructor
  · simp
  · simp [rd16]

/-- T3.3a `decodeStep_exact`: a successful decode consumes exactly header + payload. -/
theorem decodeStep_exact (b : Bytes) (f : Frame) (r : Bytes) (h : decodeStep b = some (f, r)) :
    b.length = 7 + f.data.length + r.length ∧
    f.data = (b.drop 7).take f.data.length ∧ r = b.drop (7 + f.data.length) :=
  ⟨decodeStep_some_length h, decodeStep_some_eq h⟩

/-- T3.3b: nothing of an incomplete frame is consumed: the decoder says "need more" exactly
when the header or the announced payload is incomplete (and then the buffer is untouched,
`feed` returning it unchanged — see `incomplete_kept`). -/
theorem decodeStep_none_iff (b : Bytes) :
    decodeStep b = none ↔
      (b.length < 7 ∨ ∃ c s0 s1 s2 s3 l0 l1 rest,
          b = c :: s0 :: s1 :: s2 :: s3 :: l0 :: l1 :: rest ∧ rest.length < rd16 l0 l1) :=
  AnyTLS.decodeStep_none_iff b

theorem incomplete_kept (b : Bytes) (h : decodeStep b = none) : decodeAll b = ([], b) :=
  decodeAll_of_none h

/-- T3.4 `feed_chunking`: feeding a decoder any byte stream in any fragmentation yields the
same frame sequence and the same residue as feeding it whole. -/
theorem feed_chunking (chunks : List Bytes) :
    feedAll [] chunks = decodeAll (flatten chunks) := by
  have := feedAll_eq chunks [] (by rfl)
  simpa using this

/-- T3.4': two fragmentations of the same byte string are indistinguishable. -/
theorem feed_chunking_indep (c1 c2 : List Bytes) (h : flatten c1 = flatten c2) :
    feedAll [] c1 = feedAll [] c2 := by
  rw [feed_chunking, feed_chunking, h]

/-- T3.5 `decodeAll_total`: every byte string is decodable without failure; the frames found
account for exactly header + payload bytes each, the residue is an incomplete frame, and at
most |b|/7 frames are produced (the receive loop makes progress and terminates). -/
theorem decodeAll_total (b : Bytes) :
    sumSizes (decodeAll b).1 + (decodeAll b).2.length = b.length ∧
    decodeStep (decodeAll b).2 = none ∧
    7 * (decodeAll b).1.length ≤ b.length := by
  have h1 := decodeAll_account _ b (Nat.le_refl _)
  have h2 := decodeAll_residue _ b (Nat.le_refl _)
  have h3 := sumSizes_ge (decodeAll b).1
  exact ⟨h1, h2, by omega⟩

/-- well-formed frame: what the encoder accepts and a `u32` stream id -/
def WF (f : Frame) : Prop := f.sid < 4294967296 ∧ f.data.length ≤ 65535

def encodeAll : List Frame → Option Bytes
  | [] => some []
  | f :: fs => match encode f, encodeAll fs with
    | some a, some b => some (a ++ b)
    | _, _ => none

/-- T3.7: any concatenation of encoded frames (followed by an incomplete tail) decodes to
exactly those frames, leaving the tail. -/
theorem decodeAll_encodeAll (fs : List Frame) (hwf : ∀ f ∈ fs, WF f)
    (tail : Bytes) (ht : decodeStep tail = none) :
    ∃ bs, encodeAll fs = some bs ∧ decodeAll (bs ++ tail) = (fs, tail) := by
  induction fs with
  | nil => exact ⟨[], rfl, by simpa using decodeAll_of_none ht⟩
  | cons f fs ih =>
    obtain ⟨bs, hbs, hdec⟩ := ih (fun g hg => hwf g (List.mem_cons_of_mem _ hg))
    obtain ⟨hs, hl⟩ := hwf f List.mem_cons_self
    obtain ⟨a, ha, hda⟩ := decode_encode f (bs ++ tail) hs hl
    refine ⟨a ++ bs, by simp [encodeAll, ha, hbs], ?_⟩
    rw [List.append_assoc, decodeAll_of_some hda, hdec]

/-- non-vacuity: a concrete two-frame stream, cut inside the second header -/
example :
    feedAll [] [[2, 0, 0, 0, 7, 0, 2, 0xAA, 0xBB, 200, 0, 0], [0, 1, 0, 1], [9, 3]]
      = ([{ cmd := .push, sid := 7, data := [0xAA, 0xBB] }, { cmd := .waste, sid := 1, data := [9] }],
         [3]) := by decide

example : WF { cmd := .push, sid := 7, data := [1, 2, 3] } := by simp [WF]

end AnyTLS.C03
