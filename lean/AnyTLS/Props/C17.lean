/-
C17 — the HTTP proxy forwards each request to its authority, unchanged in substance.
Model: `Model/Http.lean` (transcription of src/client/http_proxy.rs); specification of a
well-formed request and of what must happen to it: `Model/HttpSpec.lean`.
-/
import AnyTLS.Lemmas.Http

namespace AnyTLS.C17
open AnyTLS AnyTLS.Http

/-- bytes written to the tunnel by a sequence of effects -/
def payload (evs : List Ev) : Bytes := evs.flatMap (fun e => match e with | .send b => b | _ => [])

def isSend : Ev → Prop
  | .send _ => True
  | _ => False

/-- T17.1 `header_end_first`: the header block ends at the FIRST `\r\n\r\n`; no terminator means no block. -/
theorem header_end_first (b : Bytes) :
    (∀ e, findHeaderEnd b = some e →
      (∃ pre post, b = pre ++ terminator ++ post ∧ e = pre.length + 4) ∧
      (∀ pre post, b = pre ++ terminator ++ post → e ≤ pre.length + 4)) ∧
    (findHeaderEnd b = none → ∀ pre post, b ≠ pre ++ terminator ++ post) :=
  ⟨fun e h => findHeaderEnd_spec b e h, fun h => findHeaderEnd_none b h⟩

/-- T17.2 `header_read_chunk_independent`: however the client's bytes are split into reads, the
header block is accepted exactly when its first terminator ends within the limit; the block is
the same and the bytes after it (read with it or later) are the rest of the stream — in
particular body bytes arriving in the same read as the end of the header never count towards
the limit. -/
theorem header_read_chunk_independent (M : Nat) (chunks : List Bytes) :
    match findHeaderEnd chunks.flatten with
    | some e =>
      if e ≤ M then ∃ rem later, readHeader M [] chunks = .ok (chunks.flatten.take e) rem later
          ∧ rem ++ later.flatten = chunks.flatten.drop e
      else readHeader M [] chunks = .err .tooLarge
    | none => readHeader M [] chunks = .err (if chunks.flatten.length > M then .tooLarge else .closedEarly) := by
  have := readHeader_whole M chunks [] rfl (Nat.zero_le _)
  simp only [List.nil_append] at this
  cases hf : findHeaderEnd chunks.flatten with
  | none => rw [hf] at this; exact this
  | some e => rw [hf] at this; exact this

/-- T17.3 `tunnel_to_named_authority`: for every well-formed request — CONNECT authority,
absolute URI, or origin form with a Host header in any letter case; names, IPv4, bracketed IPv6;
with or without port — the parser derives exactly the host (brackets removed) and port
(explicit, or 443 for CONNECT / https, 80 otherwise) the request names. -/
theorem tunnel_to_named_authority (r : Req) (body : Bytes) (h : r.WF) :
    ∃ q, parseRequest r.render body = .ok q ∧
      q.host = r.auth.host ∧ q.port = r.port ∧ q.isConnect = r.isConnect ∧ q.body = body :=
  ⟨r.parsed body, parse_wellformed r body h, rfl, rfl, rfl, rfl⟩

/-- T17.4 `origin_receives_request`: for every well-formed non-CONNECT request the rewritten
request is: same method, origin-form target, same version, the same header lines in the same
order with only the Host line replaced by its normal form (appended when absent), blank line. -/
theorem origin_receives_request (r : Req) (body : Bytes) (h : r.WF) (hc : r.isConnect = false) :
    ∃ q, parseRequest r.render body = .ok q ∧ buildForward q = r.forwarded :=
  ⟨r.parsed body, parse_wellformed r body h, buildForward_wellformed r body h hc⟩

theorem payload_sends (l : List Bytes) : payload (l.map Ev.send) = l.flatten := by
  induction l with
  | nil => rfl
  | cons x xs ih =>
    unfold payload at ih ⊢
    rw [List.map_cons, List.flatMap_cons, ih]
    rfl

theorem parseRequest_body (h : Str) (b : Bytes) (q : Parsed) (hp : parseRequest h b = .ok q) : q.body = b := by
  unfold parseRequest at hp
  dsimp only at hp
  split at hp
  · split at hp
    · cases hp; rfl
    · cases hp
  · cases hp

theorem connAfterHeader_shape (header remaining : Bytes) :
    (connAfterHeader header remaining true = ([], false)) ∨
    (∃ q, connAfterHeader header remaining true =
      ([.openTunnel q.host q.port, (if q.isConnect then .reply reply200 else .send (utf8Encode (buildForward q)))]
        ++ (if remaining.isEmpty then [] else [.send remaining]), true) ∧
      ∃ h, utf8Decode header = some h ∧ parseRequest h remaining = .ok q) := by
  unfold connAfterHeader
  cases hd : utf8Decode header with
  | none => exact Or.inl rfl
  | some h =>
    dsimp only
    cases hp : parseRequest h remaining with
    | error e => exact Or.inl rfl
    | ok q =>
      right
      have hb : q.body = remaining := parseRequest_body h remaining q hp
      refine ⟨q, ?_, h, rfl, hp⟩
      simp only [Bool.not_true, Bool.false_eq_true, if_false, hb]
      cases q.isConnect <;> rfl

/-- T17.5 `rest_forwarded_once`: whatever the request (well-formed or not) and however it is
split into reads, if the proxy acts at all it first opens the tunnel, then answers 200 (CONNECT)
or sends the rewritten request, and after that writes to the tunnel exactly the bytes that follow
the header block: each once, in order. -/
theorem rest_forwarded_once (M : Nat) (chunks : List Bytes) :
    conn M chunks true = [] ∨
    ∃ e q t, findHeaderEnd chunks.flatten = some e ∧
      conn M chunks true = .openTunnel q.host q.port ::
        (if q.isConnect then .reply reply200 else .send (utf8Encode (buildForward q))) :: t ∧
      (∀ ev ∈ t, isSend ev) ∧ payload t = chunks.flatten.drop e := by
  have hw := header_read_chunk_independent M chunks
  unfold conn
  cases hf : findHeaderEnd chunks.flatten with
  | none =>
    rw [hf] at hw
    simp only at hw
    left; rw [hw]
  | some e =>
    rw [hf] at hw
    simp only at hw
    by_cases hle : e ≤ M
    · simp only [hle, if_true] at hw
      obtain ⟨rem, later, hr, hrest⟩ := hw
      rw [hr]
      simp only
      rcases connAfterHeader_shape (chunks.flatten.take e) rem with h0 | ⟨q, hq, _⟩
      · left; rw [h0]; rfl
      · right
        refine ⟨e, q, (if rem.isEmpty then [] else [Ev.send rem]) ++ later.map Ev.send, rfl, ?_, ?_, ?_⟩
        · rw [hq]; simp
        · intro ev hev
          rcases List.mem_append.mp hev with h1 | h1
          · split at h1
            · cases h1
            · rw [List.mem_singleton] at h1; rw [h1]; trivial
          · obtain ⟨b, _, hb⟩ := List.mem_map.mp h1
            rw [← hb]; trivial
        · rw [← hrest]
          unfold payload
          rw [List.flatMap_append]
          have := payload_sends later
          unfold payload at this
          rw [this]
          cases rem with
          | nil => rfl
          | cons x xs => simp
    · simp only [hle, if_false] at hw
      left; rw [hw]

theorem reply502_ne_200 : reply502 ≠ reply200 := by decide

/-- T17.6 `no_200_without_tunnel`: when the tunnel cannot be opened the client never sees 200
and nothing is sent; the only effects are the attempt and the 502. -/
theorem no_200_without_tunnel (M : Nat) (chunks : List Bytes) :
    conn M chunks false = [] ∨ ∃ h p, conn M chunks false = [.openTunnel h p, .reply reply502] := by
  unfold conn
  cases readHeader M [] chunks with
  | err e => exact Or.inl rfl
  | ok header rem later =>
    simp only
    unfold connAfterHeader
    cases utf8Decode header with
    | none => exact Or.inl rfl
    | some h =>
      simp only
      cases parseRequest h rem with
      | error e => exact Or.inl rfl
      | ok q => exact Or.inr ⟨q.host, q.port, rfl⟩

/-- T17.7 `connection_wellformed`: the whole connection, for every well-formed request of any
size up to the limit, every continuation `rest` of the byte stream and every way of splitting
the stream into reads: the tunnel is opened to the named authority; CONNECT is answered 200
(after the tunnel), any other request is sent rewritten as specified; then exactly `rest` is
forwarded.  With the tunnel failing: 502 and nothing else. -/
theorem connection_wellformed (M : Nat) (r : Req) (h : r.WF) (chunks : List Bytes) (rest : Bytes)
    (hs : chunks.flatten = utf8Encode r.render ++ rest) (hlen : (utf8Encode r.render).length ≤ M) :
    (∃ t, conn M chunks true = .openTunnel r.auth.host r.port ::
        (if r.isConnect then .reply reply200 else .send (utf8Encode r.forwarded)) :: t ∧
      (∀ ev ∈ t, isSend ev) ∧ payload t = rest) ∧
    conn M chunks false = [.openTunnel r.auth.host r.port, .reply reply502] := by
  have hw := header_read_chunk_independent M chunks
  have hfe := header_end_render r h rest
  rw [hs, hfe] at hw
  simp only [hlen, if_true, List.take_left', List.drop_left'] at hw
  obtain ⟨rem, later, hr, hrest⟩ := hw
  have hdec := utf8_roundtrip r.render
  have hparse := parse_wellformed r rem h
  have hcah : ∀ ok, connAfterHeader (utf8Encode r.render) rem ok =
      if !ok then ([.openTunnel r.auth.host r.port, .reply reply502], false)
      else ([.openTunnel r.auth.host r.port]
        ++ (if r.isConnect then [.reply reply200] else [.send (utf8Encode (buildForward (r.parsed rem)))])
        ++ (if rem.isEmpty then [] else [.send rem]), true) := by
    intro ok
    unfold connAfterHeader
    rw [hdec]
    simp only [hparse]
    rfl
  constructor
  · refine ⟨(if rem.isEmpty then [] else [Ev.send rem]) ++ later.map Ev.send, ?_, ?_, ?_⟩
    · unfold conn
      rw [hr]
      simp only [hcah true, Bool.not_true, Bool.false_eq_true, if_false, if_true]
      cases hc : r.isConnect with
      | true => simp
      | false => simp [buildForward_wellformed r rem h hc]
    · intro ev hev
      rcases List.mem_append.mp hev with h1 | h1
      · split at h1
        · cases h1
        · rw [List.mem_singleton] at h1; rw [h1]; trivial
      · obtain ⟨b, _, hb⟩ := List.mem_map.mp h1
        rw [← hb]; trivial
    · rw [← hrest]
      unfold payload
      rw [List.flatMap_append]
      have := payload_sends later
      unfold payload at this
      rw [this]
      cases rem with
      | nil => rfl
      | cons x xs => simp
  · unfold conn
    rw [hr]
    simp only [hcah false, Bool.not_false, if_true, Bool.false_eq_true, if_false]

/-- non-vacuity: an origin-form request with an upper-case `HOST:` line naming a bracketed IPv6
literal with a port is well-formed … -/
def exReq : Req :=
  { method := "PUT".toList, form := .origin "/up?x=1".toList,
    auth := { host := "2001:db8::5".toList, v6 := true, port := some 8080 },
    version := "HTTP/1.1".toList, pre := ["Accept: */*".toList],
    hostLine := some "HOST:  [2001:db8::5]:8080 ".toList, post := ["X-Last: café".toList] }

theorem exReq_wf : exReq.WF := by
  refine ⟨by decide, by decide, by decide, by decide, ?_, by decide, ?_, ?_⟩
  · refine ⟨by decide, by decide, by decide, by decide, by decide, by decide, by decide, ?_⟩
    intro p hp; cases hp; decide
  · intro l hl; cases hl; decide
  · refine ⟨by decide, by decide, Or.inl ⟨_, rfl⟩, _, rfl, by decide⟩

/-- … and the proxy, fed the request in two reads with a body, does what T17.7 says -/
example : conn 65536 [utf8Encode exReq.render ++ [1, 2], [3]] true =
    [.openTunnel "2001:db8::5".toList 8080,
     .send (utf8Encode ("PUT /up?x=1 HTTP/1.1\r\nAccept: */*\r\nHost: [2001:db8::5]:8080\r\nX-Last: café\r\n\r\n".toList)),
     .send [1, 2], .send [3]] := by decide +kernel

example : exReq.port = 8080 ∧ exReq.isConnect = false := by decide

def getReq (host : String) (path : String) : Req :=
  { method := "GET".toList, form := .absolute false path.toList,
    auth := { host := host.toList, v6 := false, port := none },
    version := "HTTP/1.1".toList, pre := [], hostLine := none, post := [] }

/-- T17.8 (full statement, kept): EVERY request on a proxy connection reaches the authority it
names — also a second request sent on the same connection after the first was answered. -/
def each_request_to_its_authority : Prop :=
  ∀ (r1 r2 : Req), r1.WF → r2.WF → r1.isConnect = false →
    Ev.openTunnel r2.auth.host r2.port ∈ conn 65536 [utf8Encode r1.render, utf8Encode r2.render] true

/-- T17.8 is false of the current code: the header block is read once per connection; after
the first request the connection is a raw byte relay (T17.5), so a second request — which HTTP/1.1
clients do send on a kept-alive proxy connection — is forwarded verbatim, in absolute form, to
the FIRST request's origin.  Replayed end to end (`http keepalive`); recorded as a known finding
(a repair needs HTTP message framing, not a small patch). -/
theorem each_request_to_its_authority_refuted : ¬ each_request_to_its_authority := by
  intro h
  have wf : ∀ host path, (host = "a.example" ∨ host = "b.example") → path = "/x" → (getReq host path).WF := by
    intro host path hh hp
    subst hp
    rcases hh with e | e <;> subst e
    all_goals
      refine ⟨by decide, by decide, by decide, by decide, ?_, by decide, ?_, ?_⟩
      · refine ⟨by decide, by decide, by decide, by decide, by decide, by decide, by decide, ?_⟩
        intro p hp; cases hp
      · intro l hl; cases hl
      · exact ⟨by decide, by decide, Or.inr ⟨_, Or.inl rfl⟩⟩
  have := h (getReq "a.example" "/x") (getReq "b.example" "/x") (wf _ _ (Or.inl rfl) rfl) (wf _ _ (Or.inr rfl) rfl) rfl
  revert this
  decide +kernel


end AnyTLS.C17
