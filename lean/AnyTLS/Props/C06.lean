/-
C06 — only holders of the password get a session.
Model: `Model/Auth.lean`.
-/
import AnyTLS.Model.Auth
import AnyTLS.Lemmas.Frame

namespace AnyTLS.C06
open AnyTLS

/-- T6.1 `auth_accept_iff`: a connection is accepted iff its first 32 bytes are the expected
hash and the declared padding has arrived; exactly preamble + declared padding is consumed. -/
theorem auth_accept_iff (exp inp : Bytes) (n : Nat) :
    authServer exp inp = .accept n ↔
      inp.length ≥ 34 ∧ inp.take 32 = exp ∧ n = 34 + rd16 (inp.getD 32 0) (inp.getD 33 0) ∧ n ≤ inp.length := by
  unfold authServer
  constructor
  · intro h
    split at h
    · cases h
    · split at h
      · cases h
      · split at h
        · cases h
        · simp only at h
          split at h
          · cases h
          · injection h with h
            rename_i h1 h2 h3 h4
            refine ⟨by omega, by simpa using h2, h.symm, by omega⟩
  · rintro ⟨h1, h2, h3, h4⟩
    have a : ¬ inp.length < 32 := by omega
    have b : ¬ (inp.take 32 != exp) = true := by simp [h2]
    have c : ¬ inp.length < 34 := by omega
    simp only [a, c, if_false]
    have d : ¬ inp.length < 34 + rd16 (inp.getD 32 0) (inp.getD 33 0) := by omega
    rw [if_neg b, if_neg d, h3]

/-- T6.2: every 32-byte string other than the hash — however close: a single flipped bit, a
single changed byte, the hash of a related password — is rejected as soon as 32 bytes are in,
and nothing else is. -/
theorem auth_reject_iff (exp inp : Bytes) :
    authServer exp inp = .reject ↔ inp.length ≥ 32 ∧ inp.take 32 ≠ exp := by
  unfold authServer
  constructor
  · intro h
    split at h
    · cases h
    · split at h
      · rename_i h1 h2; exact ⟨by omega, by simpa using h2⟩
      · split at h
        · cases h
        · simp only at h; split at h <;> cases h
  · rintro ⟨h1, h2⟩
    have a : ¬ inp.length < 32 := by omega
    have b : (inp.take 32 != exp) = true := by simpa using h2
    simp only [a, b, if_false, if_true]

theorem take_append_of_le (a b : Bytes) (n : Nat) (h : n ≤ a.length) : (a ++ b).take n = a.take n :=
  List.take_append_of_le_length h

theorem getD_append_of_lt (a b : Bytes) (i : Nat) (h : i < a.length) : (a ++ b).getD i 0 = a.getD i 0 := by
  simp [List.getD, List.getElem?_append_left h]

/-- T6.3 `auth_prefix_stable`: a verdict reached on the bytes received so far is the verdict on
every extension — hence the same for every fragmentation of the preamble on the transport. -/
theorem auth_prefix_stable (exp a b : Bytes) (h : authServer exp a ≠ .needMore) :
    authServer exp (a ++ b) = authServer exp a := by
  cases hv : authServer exp a with
  | needMore => exact absurd hv h
  | reject =>
    obtain ⟨h1, h2⟩ := (auth_reject_iff exp a).mp hv
    apply (auth_reject_iff exp (a ++ b)).mpr
    refine ⟨by simp; omega, ?_⟩
    rw [take_append_of_le a b 32 h1]; exact h2
  | accept n =>
    obtain ⟨h1, h2, h3, h4⟩ := (auth_accept_iff exp a n).mp hv
    apply (auth_accept_iff exp (a ++ b) n).mpr
    refine ⟨by simp; omega, ?_, ?_, by simp; omega⟩
    · rw [take_append_of_le a b 32 (by omega)]; exact h2
    · rw [getD_append_of_lt a b 32 (by omega), getD_append_of_lt a b 33 (by omega)]; exact h3

/-- truncated preambles: anything shorter than hash + length + declared padding is never a
verdict "accept" -/
theorem truncated_never_accepted (exp inp : Bytes) (h : inp.length < 34) :
    ∀ n, authServer exp inp ≠ .accept n := by
  intro n hacc
  have := (auth_accept_iff exp inp n).mp hacc
  omega

/-- T6.4 `skip_exact`: for every declared padding length 0..65535 the frame decoder of an
accepted connection starts at the first byte after the padding. -/
theorem skip_exact (exp hash pad rest : Bytes) (p : Nat) (hh : hash.length = 32) (he : hash = exp)
    (hp : p < 65536) (hpad : pad.length = p) :
    authServer exp (hash ++ be16 p ++ pad ++ rest) = .accept (34 + p) ∧
    serverConnFrames exp (hash ++ be16 p ++ pad ++ rest) = some (decodeAll rest).1 := by
  obtain ⟨x, y, hxy, hr⟩ := rd16_be16 p hp
  have hacc : authServer exp (hash ++ be16 p ++ pad ++ rest) = .accept (34 + p) := by
    apply (auth_accept_iff _ _ _).mpr
    rw [hxy]
    refine ⟨by simp [hh]; omega, ?_, ?_, by simp [hh, hpad]; omega⟩
    · rw [List.append_assoc, List.append_assoc, List.take_append_of_le_length (by omega), ← hh, List.take_length]
      exact he
    · have e32 : (hash ++ [x, y] ++ pad ++ rest).getD 32 0 = x := by
        simp [List.getD, List.getElem?_append_right, hh, List.append_assoc]
      have e33 : (hash ++ [x, y] ++ pad ++ rest).getD 33 0 = y := by
        simp [List.getD, List.getElem?_append_right, hh, List.append_assoc]
      rw [e32, e33, hr]
  refine ⟨hacc, ?_⟩
  unfold serverConnFrames
  rw [hacc]
  simp only
  have : (hash ++ be16 p ++ pad ++ rest).drop (34 + p) = rest := by
    have hl : (hash ++ be16 p ++ pad).length = 34 + p := by simp [hh, hpad, be16_length]; omega
    rw [← hl, List.drop_left]
  rw [this]

/-- T6.5 `no_session_without_accept`: unless the first 32 bytes are the expected hash the
server connection never acts on a single frame — no stream callback, no dial, no reply —
whatever follows and however long the connection stays open. -/
theorem no_session_without_accept (exp inp : Bytes) (h : inp.take 32 ≠ exp ∨ inp.length < 34) :
    serverConnFrames exp inp = none := by
  unfold serverConnFrames
  cases hv : authServer exp inp with
  | accept n =>
    obtain ⟨h1, h2, _, _⟩ := (auth_accept_iff exp inp n).mp hv
    rcases h with h | h
    · exact absurd h2 h
    · omega
  | _ => rfl

/-! ### the gate of the server connection (`handle_connection`, shape regenerated into `Gen.authGate`) -/

/-- Obligation on the code: `authenticate_client` is awaited once, bare, between the split of the TLS stream and the
construction of the session on the same reader. -/
theorem gen_auth_gate_bare : Gen.authGate = .bareOnce := by decide

/-- a bare gate is `authServer` on everything received: pauses, timers and the way the bytes are cut into reads do not
exist for it -/
theorem bare_gate_is_authServer (exp : Bytes) : ∀ (evs : List ConnEv) (acc : Bytes),
    gateRun .bareOnce exp acc evs = authServer exp (acc ++ bytesOf evs) := by
  intro evs
  induction evs with
  | nil => intro acc; simp [gateRun, bytesOf]
  | cons e es ih =>
    intro acc
    cases e with
    | tick =>
      unfold gateRun
      cases hv : authServer exp acc with
      | needMore => simp only [bytesOf]; exact ih acc
      | reject => simp only [bytesOf]; rw [auth_prefix_stable exp acc _ (by rw [hv]; exact AuthOut.noConfusion), hv]
      | accept n => simp only [bytesOf]; rw [auth_prefix_stable exp acc _ (by rw [hv]; exact AuthOut.noConfusion), hv]
    | bytes b =>
      unfold gateRun
      cases hv : authServer exp acc with
      | needMore => simp only [bytesOf]; rw [ih (acc ++ b), List.append_assoc]
      | reject => simp only [bytesOf]; rw [auth_prefix_stable exp acc _ (by rw [hv]; exact AuthOut.noConfusion), hv]
      | accept n => simp only [bytesOf]; rw [auth_prefix_stable exp acc _ (by rw [hv]; exact AuthOut.noConfusion), hv]

/-- T6.6 `gate_accept_iff`: the listening server's connection task lets a connection through iff the first 32 bytes of
everything it received are the hash (and the declared padding is in) — for every way the bytes arrive, every pause
between them and every timer that fires meanwhile. -/
theorem gate_accept_iff (exp : Bytes) (evs : List ConnEv) (n : Nat) :
    gateRun Gen.authGate exp [] evs = .accept n ↔
      (bytesOf evs).length ≥ 34 ∧ (bytesOf evs).take 32 = exp ∧
      n = 34 + rd16 ((bytesOf evs).getD 32 0) ((bytesOf evs).getD 33 0) ∧ n ≤ (bytesOf evs).length := by
  rw [gen_auth_gate_bare, bare_gate_is_authServer, List.nil_append]
  exact auth_accept_iff exp (bytesOf evs) n

/-- the excluded shape, refuted by a witness: three stray bytes, a timer expiry, then the genuine preamble — the retried
call takes the later bytes for "the first 32" and lets the connection through although what it received does not start
with the hash (and, symmetrically, a holder of the password who pauses after the hash is turned away). -/
theorem timed_retry_accepts_stray_prefix :
    gateRun .timedRetry (zeros 32) [] [.bytes [1, 2, 3], .tick, .bytes (zeros 32 ++ [0, 0])] = .accept 34 ∧
    gateRun .timedRetry (zeros 32) [] [.bytes (zeros 32), .tick, .bytes [0, 0]] = .needMore ∧
    gateRun .bareOnce (zeros 32) [] [.bytes [1, 2, 3], .tick, .bytes (zeros 32 ++ [0, 0])] = .reject ∧
    gateRun .bareOnce (zeros 32) [] [.bytes (zeros 32), .tick, .bytes [0, 0]] = .accept 34 := by
  decide


/-- non-vacuity: a 32-byte hash, declared padding 2, then a SYN frame -/
example :
    let hash : Bytes := List.replicate 32 7
    serverConnFrames hash (hash ++ [0, 2, 0, 0] ++ [1, 0, 0, 0, 1, 0, 0])
      = some [{ cmd := .syn, sid := 1, data := [] }] := by decide

end AnyTLS.C06
