/-
C09 — a dying session releases everyone waiting on it, promptly.
Model: `Model/Conc.lean` (M13), the same interleaving semantics as C11: any number of tasks
writing, opening and closing, the receive loop's reaction to EOF / a read error / an Alert /
the liveness monitor giving up as one more task that calls `close()`, transport write failures
at any piece of any write.  Invariants: `Lemmas/Conc.lean`.
-/
import AnyTLS.Props.C11
import AnyTLS.Lemmas.Session
import AnyTLS.Props.C02

namespace AnyTLS.C09
open AnyTLS AnyTLS.C11

/-! ### the session state `close()` leaves behind -/

/-- T9.1a `drain_releases`: the drain step of `close()` closes every stream that is in the table
(its reader then reaches end of stream or the error, C01) and resolves its pending open. -/
theorem drain_releases (s : Sess) (sid h : Nat) (hin : (sid, h) ∈ s.streams) (o : Obj) (ho : s.objs[h]? = some o) :
    ∃ o', s.closeDrain.objs[h]? = some o' ∧ o'.closedFlag = true ∧ o'.synack ≠ .pending := by
  have hany : s.streams.any (fun kv => kv.2 == h) = true := List.any_eq_true.mpr ⟨(sid, h), hin, by simp⟩
  unfold Sess.closeDrain
  simp only [List.getElem?_mapIdx, ho, Option.map_some, hany, if_true]
  have key : (o.closeWithError.notifySynack (.err "Protocol error: Session closed")).closedFlag = true ∧
      (o.closeWithError.notifySynack (.err "Protocol error: Session closed")).synack ≠ .pending := by
    unfold Obj.notifySynack Obj.closeWithError
    cases hs : o.synack <;> simp [hs]
  split
  · exact ⟨_, rfl, key.1, key.2⟩
  · exact ⟨_, rfl, key.1, key.2⟩

/-- T9.1c `drain_needs_no_lock`: once `close()` has set the flag, its next step - the drain that releases every
reader and every pending open (`drain_releases`, `drain_closes_readers`) - is enabled in EVERY state: whoever holds or
queues for the buffer lock or the writer lock (a writer inside a transport write included), the closing task does
not wait for them, and the step leaves the locks as they are.  Only the transport shutdown that follows needs the
writer lock.  (The order "flag, drain, then the writer lock" is what the `cl:flag` / `cl:drained` scheduling points and
the `stall` cases of the sched group check against the code.) -/
theorem drain_needs_no_lock (cs : CS) (t : Nat) (k : CloseK) (h : (cs.task t).pc = .cflag k) :
    ∃ cs', micro cs t = some cs' ∧ cs'.s = cs.s.closeDrain ∧ cs'.bufHolder = cs.bufHolder ∧ cs'.wrHolder = cs.wrHolder := by
  refine ⟨({ cs with s := cs.s.closeDrain }.setPC t (.cdrained k)), ?_, rfl, rfl, rfl⟩
  unfold micro
  simp only [h]

/-- T9.1a' `drain_closes_readers`: a stream that is in both tables under the same handle (every
stream `open_stream` registered and no FIN removed) has its inbound channel closed by the drain:
its reader obtains what was queued and then end of stream (C01 `closed_reader_read`). -/
theorem drain_closes_readers (s : Sess) (sid h : Nat) (hin : (sid, h) ∈ s.streams) (hrecv : (sid, h) ∈ s.recv)
    (o : Obj) (ho : s.objs[h]? = some o) :
    ∃ o', s.closeDrain.objs[h]? = some o' ∧ o'.rd.chanOpen = false ∧ o'.closedFlag = true := by
  have hany : s.streams.any (fun kv => kv.2 == h) = true := List.any_eq_true.mpr ⟨(sid, h), hin, by simp⟩
  have hany2 : s.recv.any (fun kv => kv.2 == h && s.streams.any (fun x => x.1 == kv.1)) = true := by
    apply List.any_eq_true.mpr
    refine ⟨(sid, h), hrecv, ?_⟩
    simp only [beq_self_eq_true, Bool.true_and]
    exact List.any_eq_true.mpr ⟨(sid, h), hin, by simp⟩
  unfold Sess.closeDrain
  simp only [List.getElem?_mapIdx, ho, Option.map_some, hany, if_true, hany2]
  refine ⟨_, rfl, ?_, ?_⟩
  · simp [RState.closeChan]
  · unfold Obj.notifySynack Obj.closeWithError
    cases o.synack <;> simp

/-- closed, then someone is still executing `close()` or the transport has been shut down -/
def CloseInv (cs : CS) : Prop :=
  cs.s.closed = true → (∃ t, (cs.task t).pc.closing = true) ∨ cs.s.shut = true

theorem closeInv_micro (cs cs' : CS) (t : Nat) (h : CloseInv cs) (hm : micro cs t = some cs') : CloseInv cs' := by
  obtain ⟨c1, c2, c3, c4⟩ := micro_close cs cs' t hm
  have hso := micro_others cs cs' t hm
  intro hc'
  rcases c3 with e | e
  · rw [e] at hc'
    rcases h hc' with ⟨u, hu⟩ | hs
    · by_cases eu : u = t
      · subst eu
        rcases c4 hu with h1 | h1
        · exact Or.inl ⟨u, h1⟩
        · exact Or.inr h1
      · left
        refine ⟨u, ?_⟩
        rw [← closing_norm, (hso u eu).1, closing_norm]; exact hu
    · exact Or.inr (c2 hs)
  · exact Or.inl ⟨t, e⟩

structure Inv9 (cs : CS) : Prop where
  lock : LockInv cs
  close : CloseInv cs
  ids : IdInv cs

theorem inv9_init (s : Sess) (hc : s.closed = false) : Inv9 (initCS s) where
  lock := {
    bh := fun t => by simp [initCS, CS.task, PC.holdsBuf]
    bq := fun t => by simp [initCS, CS.task, PC.waitsBuf]
    bn := List.nodup_nil
    b0 := fun _ => rfl
    wh := fun t => by simp [initCS, CS.task, PC.holdsWr]
    wq := fun t => by simp [initCS, CS.task, PC.waitsWr]
    wn := List.nodup_nil
    w0 := fun _ => rfl }
  close := fun h => by simp [initCS, hc] at h
  ids := (inv_init s).i

theorem inv9_step {cs cs' : CS} (h : Inv9 cs) (st : Step cs cs') : Inv9 cs' := by
  cases st with
  | act _ t hm => exact ⟨LockInv_micro _ _ t h.lock hm, closeInv_micro _ _ t h.close hm, IdInv_micro _ _ t h.ids hm⟩
  | spawn k hk hs hsid =>
    have hun := (h.ids.unused cs.n (Nat.le_refl _)).1
    have pcs : ∀ u, ((cs.spawn k).task u).pc = if u = cs.n then .idle else (cs.task u).pc := by
      intro u; rw [spawn_task]; split
      · exact hk
      · rfl
    refine ⟨?_, ?_, ?_⟩
    · -- the new id was unused: it neither held nor waited for anything, and the new task does not either
      refine LockInv_congr h.lock (fun u => ?_) (fun u => ?_) (fun u => ?_) (fun u => ?_) rfl rfl rfl rfl <;>
        (rw [pcs]; split
         · rename_i e; rw [e, hun]; rfl
         · rfl)
    · intro hc
      rcases h.close hc with ⟨u, hu⟩ | hs'
      · left; refine ⟨u, ?_⟩
        rw [pcs]; split
        · rename_i e; rw [e, hun] at hu; cases hu
        · exact hu
      · exact Or.inr hs'
    · refine ⟨fun u hu => ?_, fun x hx t ht => ?_⟩
      · have : cs.n + 1 ≤ u := hu
        rw [spawn_task]; split
        · omega
        · exact h.ids.unused u (by omega)
      · have := h.ids.owners x hx t ht
        show t < cs.n + 1; omega
  | env b => exact ⟨LockInv_rec _ h.lock rfl rfl rfl rfl rfl, h.close, ⟨h.ids.unused, h.ids.owners⟩⟩
  | recv f hq =>
    obtain ⟨_, _, c3, c4, _⟩ := recv_core cs.s f hq
    refine ⟨LockInv_rec _ h.lock rfl rfl rfl rfl rfl, ?_, ⟨h.ids.unused, h.ids.owners⟩⟩
    intro hc
    have hc' : cs.s.closed = true := by rw [← c3]; exact hc
    rcases h.close hc' with ⟨u, hu⟩ | hs
    · exact Or.inl ⟨u, hu⟩
    · right; show (cs.s.handleFrame f).1.shut = true; rw [c4]; exact hs

theorem inv9_reach (s : Sess) (hc : s.closed = false) {cs : CS} (r : Reach (initCS s) cs) : Inv9 cs := by
  induction r with
  | refl => exact inv9_init s hc
  | step _ st ih => exact inv9_step ih st

/-- T9.1b `closed_is_visible_and_final`: once the flag is set it stays set, under every step. -/
theorem closed_forever {cs cs' : CS} (st : Step cs cs') (h : cs.s.closed = true) : cs'.s.closed = true := by
  cases st with
  | act _ t hm => exact (micro_close _ _ t hm).1 h
  | spawn k _ _ _ => exact h
  | env b => exact h
  | recv f hq => show (cs.s.handleFrame f).1.closed = true; rw [(recv_core cs.s f hq).2.2.1]; exact h

/-- T9.1c `closed_then_shut`: in every reachable state of a session that started open: if it
is closed and nobody is inside `close()` any more, the transport has been shut down. -/
theorem closed_then_shut (s : Sess) (hc : s.closed = false) {cs : CS} (r : Reach (initCS s) cs)
    (hcl : cs.s.closed = true) (hnone : ∀ t, (cs.task t).pc.closing = false) : cs.s.shut = true := by
  rcases (inv9_reach s hc r).close hcl with ⟨t, ht⟩ | h
  · rw [hnone t] at ht; cases ht
  · exact h

/-- T9.2 `no_deadlock`: in every reachable state, under every interleaving and with every
combination of termination causes, as long as some task has not finished some task can take a
step: no task waits for a lock whose holder waits for it (or for itself). -/
theorem no_deadlock (s : Sess) (hc : s.closed = false) {cs : CS} (r : Reach (initCS s) cs) (t : Nat)
    (ht : (cs.task t).pc ≠ .fin) : ∃ u cs', micro cs u = some cs' :=
  progress cs (inv9_reach s hc r).lock t ht

/-- T9.4a `later_open_fails`: an `open_stream` that starts on a closed session returns the
session-closed error at once and registers nothing. -/
theorem later_open_fails (cs : CS) (t : Nat) (rest : List COp) (hpc : (cs.task t).pc = .idle)
    (hop : (cs.task t).ops = .open :: rest) (hcl : cs.s.closed = true) :
    ∃ cs', micro cs t = some cs' ∧ (cs'.task t).results = (cs.task t).results ++ [.errClosed] ∧ cs'.s = cs.s := by
  unfold micro
  simp only [hpc, hop, hcl, if_true]
  refine ⟨_, rfl, ?_, rfl⟩
  rw [finishOp_self]
  show ((cs.setTask t _).task t).results ++ _ = _
  rw [setTask_task, if_pos rfl]

/-- T9.4b `later_write_fails`: a `write_frame` that gets the buffer lock on a closed session
returns the session-closed error, writes nothing, buffers nothing and releases the lock. -/
theorem later_write_fails (cs : CS) (t : Nat) (b : Bytes) (fs : List Bytes) (hpc : (cs.task t).pc = .locked (b :: fs))
    (hcl : cs.s.closed = true) :
    ∃ cs', micro cs t = some cs' ∧ (cs'.task t).results = (cs.task t).results ++ [.errClosed] ∧
      cs'.s = cs.s ∧ cs'.log = cs.log ∧ (cs'.task t).pc = .idle := by
  unfold micro
  simp only [hpc, hcl, if_true]
  refine ⟨_, rfl, ?_, by rw [finishOp_s, releaseBuf_s], by rw [finishOp_log, releaseBuf_log], by rw [finishOp_pc, if_pos rfl]⟩
  rw [finishOp_self]
  show (cs.releaseBuf.task t).results ++ _ = _
  rw [(releaseBuf_task cs t).2.2.2.1]

/-- T9.4c: a write that fails on the transport returns the I/O error after the session has been
closed by that very task (`handle_io_error`): the state `wdone errIo` exists only in closed sessions. -/
theorem failed_write_closes (s : Sess) {cs : CS} (r : Reach (initCS s) cs) (t : Nat) (fs : List Bytes)
    (hpc : (cs.task t).pc = .wdone .errIo fs) : cs.s.closed = true :=
  (inv_reach s r).o.ac t (by rw [hpc]; rfl)

/-- T9.3 `every_schedule_is_bounded`: from any reachable state, under EVERY interleaving (no
fairness assumed), the tasks can take at most `totalCost K` further actions altogether, where
`K` only has to exceed the number of `write_all` calls one packet of the scheme can need by 12:
no task runs for ever, no livelock.  With `no_deadlock`: the run can only stop when every task
has finished — nothing blocks for ever. -/
theorem every_schedule_is_bounded (s : Sess) (hc : s.closed = false) {cs : CS} (r : Reach (initCS s) cs)
    (K : Nat) (hK : cs.s.scheme.maxParts + 12 ≤ K) (l : List Nat) (cs' : CS) (h : runSched cs l = some cs') :
    l.length ≤ totalCost K cs :=
  Nat.le_trans (Nat.le_add_right _ _) (sched_bounded K l cs cs' (inv9_reach s hc r).ids hK h)

/-- … and a run that cannot be continued has finished every task -/
theorem stuck_means_finished (s : Sess) (hc : s.closed = false) {cs : CS} (r : Reach (initCS s) cs)
    (hstuck : ∀ u, micro cs u = none) (t : Nat) : (cs.task t).pc = .fin := by
  cases hp : (cs.task t).pc with
  | fin => rfl
  | _ =>
    all_goals
      exfalso
      obtain ⟨u, c, hu⟩ := no_deadlock s hc r t (by rw [hp]; intro e; cases e)
      rw [hstuck u] at hu; cases hu

/-- non-vacuity: the demo state of C11 (two tasks, fresh client session) has a finite budget -/
example : demoCS.s.scheme.maxParts + 12 ≤ 14 ∧ totalCost 14 demoCS = 77 := by decide +kernel

/-! ### the receive loop's end of input (sequential model `Model/Session.lean`, the one the `sess` group drives)

The interleaving model above treats "the receive loop reacts to EOF / a read error" as a task that calls `close()`.
That it does so *whatever the receive buffer still holds* — a peer may end the transport in the middle of a frame — is a
statement about the sequential model of the loop (seed C09f made the loop leave before `close()` in exactly that case). -/

theorem close_sets_closed (s : Sess) : s.close.closed = true ∧ s.close.shut = true ∨ (s.closed = true ∧ s.close = s) := by
  unfold Sess.close
  by_cases h : s.closed = true
  · right; simp [h]
  · left; simp [h]

/-- T9.x `end_of_input_closes`: when the transport ends (clean end of input or a read error) while the loop is still
running, the session is closed and its transport shut down — for every content of the receive buffer, in particular a
partial frame — and the loop is over. -/
theorem end_of_input_closes (s : Sess) (hrun : s.recvDone = false) :
    s.feedEnd.closed = true ∧ s.feedEnd.recvDone = true := by
  unfold Sess.feedEnd
  simp only [hrun, Bool.false_eq_true, if_false, and_true]
  rcases close_sets_closed s with h | h
  · exact h.1
  · rw [h.2]; exact h.1

/-- non-vacuity: a server session that has received three bytes of a header and then the end of input -/
example : (((C02.exS.feedBytes [2, 0, 0]).feedEnd).closed = true) ∧ ((C02.exS.feedBytes [2, 0, 0]).rbuf = [2, 0, 0]) := by
  decide

end AnyTLS.C09
