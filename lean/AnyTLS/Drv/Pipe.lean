import AnyTLS.Drv.Sess

namespace AnyTLS.Drv
open AnyTLS

structure MPipe where
  c : MNode
  s : MNode
  cSent : Nat := 0
  sSent : Nat := 0
  deriving Inhabited

def lastSeg (o : String) : String := (o.splitOn " | ").getLast!

/-- drain a reader: everything currently readable and whether end of stream was seen -/
def readAllFuel : Nat → RState → Bytes → Bytes × Bool × RState
  | 0, r, acc => (acc, false, r)
  | fuel + 1, r, acc =>
    match r.read 70000 with
    | (.data b, r') => if b.isEmpty then (acc, false, r') else readAllFuel fuel r' (acc ++ b)
    | (.eof, r') => (acc, true, r')
    | (.block, r') => (acc, false, r')

def nodeReadAll (n : MNode) : MNode × List String :=
  let rec go (hs : List Nat) (idx : Nat) (n : MNode) (acc : List String) (who : String) : MNode × List String :=
    match hs with
    | [] => (n, acc.reverse)
    | i :: rest =>
      match n.s.objs[i]? with
      | none => go rest (idx + 1) n acc who
      | some o =>
        let fuel := o.rd.queue.length + 3
        let (bytes, eof, rd') := readAllFuel fuel o.rd []
        let n' := { n with s := n.s.modObj i fun o => { o with rd := rd' } }
        go rest (idx + 1) n' (s!"{who}{idx}={hexOfBytes bytes}{if eof then "$" else ""}" :: acc) who
  go n.handles 0 n [] (if n.s.isClient then "c" else "s")

def pipeDrainFuel : Nat → MPipe → MPipe
  | 0, p => p
  | fuel + 1, p =>
    let ca := flatten p.c.s.wire
    let sa := flatten p.s.s.wire
    if ca.length == p.cSent && sa.length == p.sSent then p
    else
      let p := if ca.length > p.cSent then
          let ch := ca.drop p.cSent
          match nodeOp p.s ["feed", hexOfBytes ch] with
          | some (n', _) => { p with s := n', cSent := ca.length }
          | none => p
        else p
      let p := if sa.length > p.sSent then
          let ch := sa.drop p.sSent
          match nodeOp p.c ["feed", hexOfBytes ch] with
          | some (n', _) => { p with c := n', sSent := sa.length }
          | none => p
        else p
      pipeDrainFuel fuel p

def pipeReset (toks : List String) : Option (MPipe × String) := do
  match toks with
  | [sch, seed, md5] =>
    let (c, co) ← nodeReset ["client", sch, seed, md5]
    let (s, so) ← nodeReset ["server", sch, seed, md5, "cb=1"]
    some ({ c := c, s := s }, s!"c: {co} ; s: {so}")
  | _ => none

def pipeOp (p : MPipe) (toks : List String) : Option (MPipe × String) :=
  match toks with
  | ["xfer", dir, n] =>
    match n.toNat? with
    | none => none
    | some n =>
      let c2s := dir == "c2s"
      let src := if c2s then p.c else p.s
      let dst := if c2s then p.s else p.c
      let sent := if c2s then p.cSent else p.sSent
      let all := flatten src.s.wire
      let avail := all.length - sent
      let k := if n == 0 then avail else min n avail
      let chunk := (all.drop sent).take k
      let r := if k > 0 then nodeOp dst ["feed", hexOfBytes chunk] else nodeOp dst ["state"]
      match r with
      | none => none
      | some (dst', o) =>
        let p' := if c2s then { p with s := dst', cSent := sent + k } else { p with c := dst', sSent := sent + k }
        some (p', s!"moved={k} | {lastSeg o}")
  | ["drain"] =>
    let p := pipeDrainFuel 64 p
    let (c1, _) := p.c.delta
    let (c2, pc) := nodeReadAll c1
    let (s1, _) := p.s.delta
    let (s2, ps) := nodeReadAll s1
    some ({ p with c := c2, s := s2 }, joinSep " " (pc ++ ps))
  | "c" :: rest =>
    match nodeOp p.c rest with
    | some (n', o) => some ({ p with c := n' }, o)
    | none => none
  | "s" :: rest =>
    match nodeOp p.s rest with
    | some (n', o) => some ({ p with s := n' }, o)
    | none => none
  | _ => none

end AnyTLS.Drv
