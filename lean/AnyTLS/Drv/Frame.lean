import AnyTLS.Model.Frame
import AnyTLS.Drv.Util

namespace AnyTLS.Drv
open AnyTLS AnyTLS.Gen

def showFrame (f : Frame) : String :=
  s!"{f.cmd.name}:{f.sid}:{hexOfBytes f.data}"

def showFrames (fs : List Frame) : String :=
  "[" ++ joinSep "," (fs.map showFrame) ++ "]"

def cmdOfName (s : String) : Option Cmd := Cmd.all.find? (fun c => c.name == s)

/-- group `frame` -/
def frameOp (toks : List String) : String :=
  match toks with
  | ["enc", cmd, sid, hex] =>
    match cmdOfName cmd, sid.toNat?, bytesOfHex hex with
    | some c, some s, some d =>
      match encode { cmd := c, sid := s, data := d } with
      | some bs => "ok " ++ hexOfBytes bs
      | none => "err-oversize"
    | _, _, _ => "bad-op"
  | ["dec", hex] =>
    match bytesOfHex hex with
    | some b =>
      match decodeStep b with
      | none => "none rest=" ++ toString b.length
      | some (f, r) => "some " ++ showFrame f ++ " rest=" ++ toString r.length
    | none => "bad-op"
  | "feed" :: hexes =>
    match allSome (hexes.map bytesOfHex) with
    | some chunks =>
      let (fs, r) := feedAll [] chunks
      showFrames fs ++ " rest=" ++ hexOfBytes r
    | none => "bad-op"
  | _ => "bad-op"

end AnyTLS.Drv
