/- Driver glue: hex parsing/printing, token helpers.  Outside the proved definitions. -/
import AnyTLS.Model.Bytes

namespace AnyTLS.Drv

def hexDigit (n : Nat) : Char :=
  if n < 10 then Char.ofNat (48 + n) else Char.ofNat (87 + n)

def plainHex (b : Bytes) : String :=
  String.ofList (b.foldr (fun x acc => hexDigit (x.toNat / 16) :: hexDigit (x.toNat % 16) :: acc) [])

/-- split into maximal runs of equal bytes: (byte, count) -/
def runs : Bytes → List (UInt8 × Nat)
  | [] => []
  | x :: xs =>
    match runs xs with
    | (y, n) :: rest => if x == y then (y, n + 1) :: rest else (x, 1) :: (y, n) :: rest
    | [] => [(x, 1)]

/-- the same compact spelling as the harness: `+`-joined segments, runs of >= 48 equal
bytes as `z<n>` / `r<n>x<hh>` -/
def hexOfBytes (b : Bytes) : String :=
  if b.isEmpty then "-" else
  let step := fun (acc : List String × Bytes) (r : UInt8 × Nat) =>
    let (segs, plain) := acc
    if r.2 ≥ 48 then
      let segs := if plain.isEmpty then segs else plainHex plain.reverse :: segs
      let seg := if r.1 == 0 then s!"z{r.2}" else s!"r{r.2}x{plainHex [r.1]}"
      (seg :: segs, [])
    else (segs, List.replicate r.2 r.1 ++ plain)
  let (segs, plain) := (runs b).foldl step ([], [])
  let segs := if plain.isEmpty then segs else plainHex plain.reverse :: segs
  "+".intercalate segs.reverse

def hexVal (c : Char) : Option Nat :=
  if '0' ≤ c ∧ c ≤ '9' then some (c.toNat - 48)
  else if 'a' ≤ c ∧ c ≤ 'f' then some (c.toNat - 87)
  else if 'A' ≤ c ∧ c ≤ 'F' then some (c.toNat - 55)
  else none

def bytesOfHexChars : List Char → Option Bytes
  | [] => some []
  | a :: b :: rest => do
    let x ← hexVal a
    let y ← hexVal b
    let r ← bytesOfHexChars rest
    pure (UInt8.ofNat (x * 16 + y) :: r)
  | _ => none

def bytesOfSeg (s : String) : Option Bytes :=
  match s.toList with
  | 'z' :: ds => (String.ofList ds).toNat?.map (fun n => List.replicate n 0)
  | 'r' :: ds =>
    match (String.ofList ds).splitOn "x" with
    | [n, hh] => do
      let k ← n.toNat?
      let b ← bytesOfHexChars hh.toList
      match b with
      | [x] => pure (List.replicate k x)
      | _ => none
    | _ => none
  | cs => bytesOfHexChars cs

def concatOpt : List (Option Bytes) → Option Bytes
  | [] => some []
  | none :: _ => none
  | some x :: xs => (concatOpt xs).map (x ++ ·)

/-- `-` is the empty string; otherwise `+`-joined segments: plain hex, `z<n>` (n zero
bytes) or `r<n>x<hh>` (n copies of byte hh) -/
def bytesOfHex (s : String) : Option Bytes :=
  if s == "-" then some []
  else concatOpt ((s.splitOn "+").map bytesOfSeg)

def tokens (line : String) : List String :=
  (line.trimAscii.toString.splitOn " ").filter (· ≠ "")

def allSome {α} : List (Option α) → Option (List α)
  | [] => some []
  | none :: _ => none
  | some x :: xs => (allSome xs).map (x :: ·)

def joinSep (sep : String) (l : List String) : String := sep.intercalate l

end AnyTLS.Drv
