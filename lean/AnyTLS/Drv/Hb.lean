import AnyTLS.Model.Heartbeat
import AnyTLS.Drv.Util

namespace AnyTLS.Drv
open AnyTLS

/-- delay of the answer to request k in a scenario: the k-th listed delay (the last one repeats),
`none` from request `silentFrom` on -/
def scenarioDelay (delays : List Nat) (silentFrom : Option Nat) (k : Nat) : Option Nat :=
  match silentFrom with
  | some s => if k ≥ s then none else delays[min k (delays.length - 1)]?
  | none => delays[min k (delays.length - 1)]?

/-- the next instant ≥ t at which `instant` can change the state: a tick, an arrival, or the
deadline of the pending request (`C14.idle_instant_noop`: every other instant is a no-op) -/
def nextEvent (I T : Nat) (arrivals : List Nat) (st : HB) (t : Nat) : Nat :=
  let tick := (t + I - 1) / I * I
  let arr := (arrivals.filter (· ≥ t)).foldl min (tick)
  match st.pending with
  | some s => min arr (max t (s + T))
  | none => arr

def hbFast : Nat → Nat → Nat → (Nat → Option Nat) → List Nat → HB → Nat → Nat → HB
  | 0, _, _, _, _, st, _, _ => st
  | fuel + 1, I, T, r, arrivals, st, t, horizon =>
    let t' := nextEvent I T arrivals st t
    if t' ≥ horizon then st
    else
      let st' := instant I T r st t'
      match st'.closedAt with
      | some _ => st'
      | none => hbFast fuel I T r arrivals st' (t' + 1) horizon

/-- `hb run <I> <T> <silent|never> <horizon> <delay>...` -/
def hbRunOp (toks : List String) : String :=
  match toks with
  | "run" :: i :: t :: silent :: horizon :: delays =>
    match i.toNat?, t.toNat?, horizon.toNat?, allSome (delays.map String.toNat?) with
    | some I, some T, some H, some ds =>
      if I == 0 || ds.isEmpty then "bad-op" else
      let sf := if silent == "never" then none else silent.toNat?
      let r := scenarioDelay ds sf
      let n := H / I + 2
      let arrivals := (List.range n).filterMap (fun k => (r k).map (fun d => k * I + d))
      let st := hbFast (4 * n + 8) I T r arrivals {} 0 H
      match st.closedAt with
      | some c => s!"closed_at={c}"
      | none => "closed_at=never"
    | _, _, _, _ => "bad-op"
  | _ => "bad-op"

/-- `hb runf <F> ...` is `hb run ...` on a transport with a slow flush: the prediction is the same -/
def hbOp (toks : List String) : String :=
  match toks with
  | "runf" :: _ :: rest => hbRunOp ("run" :: rest)
  | _ => hbRunOp toks

end AnyTLS.Drv
