import AnyTLS.Model.Conc
import AnyTLS.Drv.Sess

namespace AnyTLS.Drv
open AnyTLS

structure MSched where
  cs : CS
  seenWrites : Nat := 0
  decBuf : Bytes := []
  coalesce : Bool := false
  /-- the transport stalled (a write that neither completes nor fails): outside the model, the rest of the case is
      judged by the harness's oracles only -/
  stalled : Bool := false
  deriving Inhabited

def pcName : PC → String
  | .idle => "@op"
  | .openChecked => "@os:checked"
  | .enter _ => "@wf:enter"
  | .locked _ => "@wf:locked"
  | .preWr _ _ => "@wp:lock"
  | .piece _ _ => "@wp:piece"
  | .wdone _ _ => "@wf:done"
  | .cflag _ => "@cl:flag"
  | .cdrained _ => "@cl:drained"
  | .waitBuf _ | .waitWr _ _ | .cwait _ => "blocked"
  | .cshut _ => "running"
  | .fin => "done"

def statusStr (cs : CS) : String :=
  let parts := (List.range cs.n).filterMap fun t =>
    let k := cs.task t
    if k.controlled then some s!"T{t}:{pcName k.pc}[{joinSep "," (k.results.map resStr)}]" else none
  joinSep " " parts

def MSched.obs (m : MSched) : MSched × String :=
  let n : MNode := { s := m.cs.s, seenWrites := m.seenWrites, decBuf := m.decBuf, coalesce := m.coalesce }
  let (n', d) := n.delta
  ({ m with seenWrites := n'.seenWrites, decBuf := n'.decBuf }, statusStr m.cs ++ d)

def parseCOp (t : Nat) (tok : String) : Option COp :=
  let marker : UInt8 := UInt8.ofNat (65 + t)
  if tok == "open" then some .open
  else if tok == "nobuf" then some .nobuf
  else if tok == "close" then some .close
  else match tok.toList with
    | 'w' :: rest =>
      match (String.ofList rest).splitOn "." with
      | [c, sid, len] => do
        let c ← c.toNat?; let sid ← sid.toNat?; let len ← len.toNat?
        pure (.write { cmd := Gen.Cmd.ofByte c, sid := sid, data := List.replicate len marker })
      | _ => none
    | 'o' :: rest => (String.ofList rest).toNat?.map (fun len => .dataOwn (List.replicate len marker))
    | 'd' :: rest =>
      match (String.ofList rest).splitOn "." with
      | [sid, len] => do
        let sid ← sid.toNat?; let len ← len.toNat?
        pure (.data sid (List.replicate len marker))
      | _ => none
    | _ => none

def parkedTasks (cs : CS) : List Nat :=
  (List.range cs.n).filter fun t => let k := cs.task t; k.controlled && k.pc.parked && !(k.pc == .idle && k.ops.isEmpty)

def drainGo : Nat → CS → CS
  | 0, cs => cs
  | fuel + 1, cs =>
    match parkedTasks cs with
    | [] => cs
    | t :: _ => match stepTask cs t with
      | some cs' => drainGo fuel cs'
      | none => cs

def schedOp (st : Option MSched) (toks : List String) : Option MSched × String :=
  match toks with
  | "reset" :: rest =>
    match nodeReset rest with
    | some (n, o) => (some { cs := { s := n.s }, seenWrites := n.seenWrites, decBuf := n.decBuf }, o)
    | none => (none, "reject")
  | _ =>
    match st with
    | none => (none, "nonode")
    | some m =>
      if m.stalled then (st, "skip") else
      match toks with
      | ["task", prog] =>
        let t := m.cs.n
        match allSome ((prog.splitOn ";").map (parseCOp t)) with
        | some ops => (some { m with cs := m.cs.spawn { ops := ops, allOps := ops } }, "ok")
        | none => (st, "bad-op")
      | ["go"] =>
        let m := { m with cs := settle 64 m.cs }
        let (m, o) := m.obs
        (some m, o)
      | ["pick", n] =>
        match n.toNat? with
        | some n =>
          match parkedTasks m.cs with
          | [] => let (m, o) := m.obs; (some m, "none " ++ o)
          | ps =>
            let t := ps.getD (n % ps.length) 0
            match stepTask m.cs t with
            | some cs' => let (m, o) := ({ m with cs := cs' } : MSched).obs; (some m, s!"t={t} " ++ o)
            | none => (st, "stuck")
        | none => (st, "bad-op")
      | ["stall"] => (some { m with stalled := true }, "ok")
      | [ev] =>
        if ev == "eof" || ev == "rderr" || ev == "alert" then
          -- the receive loop reacts by calling close(): an uncontrolled task
          let cs := m.cs.spawn { controlled := false, ops := [.close], allOps := [.close] }
          let (m, o) := ({ m with cs := settle 64 cs } : MSched).obs
          (some m, o)
        else if ev == "drain" then
          let cs := drainGo 400 m.cs
          let (m, o) := ({ m with cs := cs } : MSched).obs
          let s := cs.s
          -- streams whose open returned ok
          let opened := (List.range cs.n).flatMap fun t =>
            let k := cs.task t
            let openRes := (k.allOps.zip k.results).filterMap fun (op, r) => if op == .open then some r else none
            (openRes.zip k.sids).filterMap fun (r, sid) => if r == .ok then sid else none
          let opened := opened.toArray.qsort (· < ·) |>.toList
          let objs := opened.map fun sid =>
            match s.objs.find? (·.sid == sid) with
            | some ob => s!"{sid}:{b01 ob.closedFlag}:{showSyn true ob.synack}:{if s.closed then "?" else hexOfBytes ob.rd.pending}"
            | none => s!"{sid}:?"
          (some m, o ++ s!" closed={b01 s.closed} streams=[{natList (sortedKeys s.streams)}] recv=[{natList (sortedKeys s.recv)}] buf={b01 s.buffering},{s.buffer.length} objs=[{joinSep "," objs}]")
        else (st, "bad-op")
      | ["feed", hx] =>
        match bytesOfHex hx with
        | some bytes =>
          -- the receive loop handles these frames without taking the write-path locks
          let cs := { m.cs with s := m.cs.s.feedBytes bytes }
          let (m, o) := ({ m with cs := settle 64 cs } : MSched).obs
          (some m, o)
        | none => (st, "bad-op")
      | ["shortw", k] =>
        -- the model's transport takes whole buffers; only the per-call write sizes are no longer comparable
        (some { m with coalesce := k != "0" }, "ok")
      | ["budget", k] =>
        if k == "none" then (some { m with cs := { m.cs with s := { m.cs.s with wrBudget := none } } }, "ok")
        else match k.toNat? with
          | some v => (some { m with cs := { m.cs with s := { m.cs.s with wrBudget := some v } } }, "ok")
          | none => (st, "bad-op")
      | _ => (st, "bad-op")

end AnyTLS.Drv
