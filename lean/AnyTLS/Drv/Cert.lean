import AnyTLS.Model.Cert
import AnyTLS.Drv.Util

namespace AnyTLS.Drv
open AnyTLS

structure MCert where
  st : CertSt
  cert : String
  key : String
  /-- index (in `st.accepted`) of the connection the harness holds -/
  held : Option Nat := none
  deriving Inhabited

def pairId (c : Char) : Option Nat :=
  if c == 'A' then some 0 else if c == 'B' then some 1 else if c == 'C' then some 2 else if c == 'E' then some 3 else if c == 'D' then some 4 else none

def pairName (n : Nat) : String := (["A", "B", "C", "E", "D"].getD n "?")

/-- what a read of a file in the named state yields (validity is known by construction: the
harness writes these states; only a complete PEM block counts) -/
def readState (state : String) (isKey : Bool) : FileRead :=
  match state.toList with
  | [c] => pairId c
  | _ =>
    if state.startsWith "trunc:" then
      match state.splitOn ":" with
      | [_, p, how] => if how == "e0" || how == "e1" then (p.toList.head?).bind pairId else none
      | _ => none
    else if state.startsWith "chaincut:" then none   -- a later block is damaged: the file is a truncation prefix
    else if state.startsWith "chain:" && !isKey then ((state.drop 6).toString.toList.head?).bind pairId
    else none

def expiredPair (n : Nat) : Bool := n == 3

def certOp (m : Option MCert) (toks : List String) : Option MCert × String :=
  match toks with
  | ["init", p, ce] =>
    match (p.toList.head?).bind pairId with
    | some i =>
      (some { st := { active := i, info := i, checkExpiry := ce == "1" }, cert := p, key := p }, "ok")
    | none => (none, "err")
  | ["disk", c, k] =>
    match m with
    | some m => (some { m with cert := c, key := k }, "ok")
    | none => (none, "nonode")
  | ["reload"] =>
    match m with
    | some m =>
      let (st', ok) := m.st.reload expiredPair (readState m.cert false) (readState m.key true)
      (some { m with st := st' }, if ok then "ok" else "err")
    | none => (none, "nonode")
  | ["reload_at", point, c, k] =>
    match m with
    | some m =>
      -- the disk changes to (c, k) at the named point of the reload — if the reload gets that far:
      -- the certificate file must exist to pass the first read, the key file to pass the second, and
      -- both must form a pair for the acceptor to be built
      let certRead := readState m.cert false
      let reached1 := m.cert != "missing"
      let keyName := if point == "reload:between_reads" && reached1 then k else m.key
      let keyRead := readState keyName true
      let reached2 := reached1 && keyName != "missing"
      let reached3 := reached2 && (match certRead, keyRead with | some a, some b => a == b | _, _ => false)
      let fired := if point == "reload:between_reads" then reached1
        else if point == "reload:after_reads" then reached2 else reached3
      let (st', ok) := m.st.reload expiredPair certRead keyRead
      (some (if fired then { m with st := st', cert := c, key := k } else { m with st := st' }), if ok then "ok" else "err")
    | none => (none, "nonode")
  | ["hold"] =>
    match m with
    | some m =>
      let st' := m.st.accept
      (some { m with st := st', held := some (st'.accepted.length - 1) }, s!"ok {pairName m.st.active}")
    | none => (none, "nonode")
  | ["ping"] =>
    match m with
    | some m =>
      match m.held.bind (fun i => m.st.accepted[i]?) with
      | some p => (some m, s!"ok {pairName p}")
      | none => (some m, "nosession")
    | none => (none, "nosession")
  | ["state"] =>
    match m with
    | some m => (some m, s!"count={m.st.count} info={pairName m.st.info} presented={pairName m.st.active}")
    | none => (none, "nonode")
  | _ => (m, "bad-op")

end AnyTLS.Drv
