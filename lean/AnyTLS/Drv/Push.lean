import AnyTLS.Drv.Sess
import AnyTLS.Model.Proc

namespace AnyTLS.Drv
open AnyTLS

/-- one client process: the process-wide default scheme and its sessions -/
structure MProc where
  global : Scheme
  globalMd5 : String
  sessions : List MNode := []
  /-- the process-wide default has been written (by a push, or by the harness at `begin`) -/
  pushedAny : Bool := true
  deriving Inhabited

def builtinScheme : Option Scheme := Scheme.parse (asciiBytes Gen.defaultScheme)

def procBegin : Option MProc :=
  builtinScheme.map fun s => { global := s, globalMd5 := Md5.hex s.raw }

/-- a fresh process with a configured scheme: until something is pushed, sessions get the configured one -/
def procFresh (cfgHex : String) : Option MProc := do
  let raw ← bytesOfHex cfgHex
  let s ← Scheme.parse raw
  some { global := s, globalMd5 := Md5.hex s.raw, pushedAny := false }

def setNode (p : MProc) (i : Nat) (n : MNode) : MProc :=
  { p with sessions := p.sessions.mapIdx (fun j m => if j == i then n else m) }

/-- after an op on session `i`: schemes it stored into the process-wide default become the default -/
def absorb (p : MProc) (i : Nat) (before : Nat) : MProc :=
  match p.sessions[i]? with
  | some n =>
    let g := absorbScheme p.global n.s.pushed before
    { p with global := g, globalMd5 := Md5.hex g.raw, pushedAny := p.pushedAny || n.s.pushed.length > before }
  | none => p

def pushOp (p : MProc) (toks : List String) : Option (MProc × String) :=
  match toks with
  | ["new"] =>
    -- `PaddingFactory::effective`: the process-wide default once anything was pushed (the harness
    -- normalises it at `begin`, so it is always the default here)
    let s0 := Sess.initClient p.global p.globalMd5 0
    let (s1, r) := s0.startClient
    let (n, d) := ({ s := s1 } : MNode).delta
    some ({ p with sessions := p.sessions ++ [n] }, resStr r ++ d)
  | ["nobuf", i] =>
    match i.toNat? with
    | some i =>
      match p.sessions[i]? with
      | some n => (nodeOp n ["nobuf"]).map fun (n', o) => (setNode p i n', o)
      | none => some (p, "nonode")
    | none => none
  | ["feed", i, hx] =>
    match i.toNat? with
    | some i =>
      match p.sessions[i]? with
      | some n =>
        let before := n.s.pushed.length
        (nodeOp n ["feed", hx]).map fun (n', o) => (absorb (setNode p i n') i before, o)
      | none => some (p, "nonode")
    | none => none
  | ["ctl", i, seed, c, sid, hx] =>
    match i.toNat?, seed.toNat? with
    | some i, some seed =>
      match p.sessions[i]? with
      | some n =>
        let n := { n with s := { n.s with rng := UInt64.ofNat seed } }
        (nodeOp n ["ctl", c, sid, hx]).map fun (n', o) => (setNode p i n', o)
      | none => some (p, "nonode")
    | _, _ => none
  | ["state", i] =>
    match i.toNat? with
    | some i =>
      match p.sessions[i]? with
      | some n => some (p, s!"md5={n.s.schemeMd5} gmd5={if p.pushedAny then p.globalMd5 else "-"} closed={b01 n.s.closed} pkt={n.s.pktCounter}")
      | none => some (p, "nonode")
    | none => none
  | _ => none

end AnyTLS.Drv
