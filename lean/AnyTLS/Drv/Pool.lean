import AnyTLS.Model.Pool
import AnyTLS.Drv.Util

namespace AnyTLS.Drv
open AnyTLS

structure MPool where
  p : Pool
  /-- start of the current slot (ms) -/
  now : Nat := 0
  /-- instant of the next periodic tick -/
  nextTick : Nat := 0
  deriving Inhabited

/-- run the periodic reaper ticks that fall before `upto` -/
def runTicks : Nat → MPool → Nat → MPool
  | 0, m, _ => m
  | fuel + 1, m, upto =>
    if m.nextTick < upto then
      runTicks fuel { m with p := m.p.cleanup m.nextTick, nextTick := m.nextTick + m.p.cfg.interval } upto
    else m

def ticksFuel (m : MPool) (upto : Nat) : Nat := (upto - m.nextTick) / (max m.p.cfg.interval 1) + 2

/-- every op occupies a 10 ms slot (see the harness); `adv` is pure time -/
def poolOp (m : MPool) (toks : List String) : Option (MPool × String) :=
  let endSlot := fun (m : MPool) (o : String) =>
    let upto := m.now + 10
    some ({ runTicks (ticksFuel m upto) m upto with now := upto }, o)
  match toks with
  | ["mk"] =>
    let i := m.p.closed.length
    endSlot { m with p := { m.p with closed := m.p.closed ++ [false], streams := m.p.streams ++ [0] } } s!"ok {i}"
  | ["add", i] =>
    match i.toNat? with
    | some i => if i < m.p.closed.length then endSlot { m with p := m.p.addIdle i i m.now } "ok" else some (m, "nonode")
    | none => none
  | ["get"] =>
    let (r, p') := m.p.getIdle
    endSlot { m with p := p' } (match r with | some i => s!"some {i}" | none => "none")
  | ["die", i] =>
    match i.toNat? with
    | some i => if i < m.p.closed.length then endSlot { m with p := m.p.die i } "ok" else some (m, "nonode")
    | none => none
  | ["open", i] =>
    match i.toNat? with
    | some i =>
      if i < m.p.closed.length then
        if m.p.isClosed i then endSlot m "err"
        else endSlot { m with p := { m.p with streams := m.p.streams.mapIdx (fun j n => if j == i then n + 1 else n) } } "ok"
      else some (m, "nonode")
    | none => none
  | ["racebg", _] =>
    -- a request inside a pass of the periodic reaper: always the last op of a case, judged by the harness's oracles only
    some (m, "skip")
  | ["cleanupbg", _] =>
    -- the pass holds the pool lock until it is done: requests that arrive meanwhile see its result
    let m1 := runTicks (ticksFuel m (m.now + 7)) m (m.now + 7)
    endSlot { m1 with p := m1.p.cleanup (m.now + 7) } "ok"
  | ["cleanup"] =>
    -- runs 7 ms into the slot: periodic ticks before that instant come first
    let m1 := runTicks (ticksFuel m (m.now + 7)) m (m.now + 7)
    endSlot { m1 with p := m1.p.cleanup (m.now + 7) } "ok"
  | ["adv", ms] =>
    match ms.toNat? with
    | some k =>
      let upto := m.now + k
      some ({ runTicks (ticksFuel m upto) m upto with now := upto }, "ok")
    | none => none
  | ["state"] =>
    let closed := (List.range m.p.closed.length).filter (fun i => m.p.isClosed i)
    endSlot m s!"idle={m.p.idle.length} closed=[{joinSep "," (closed.map toString)}]"
  | _ => none

def poolReset (toks : List String) : Option (MPool × String) :=
  match toks with
  | [i, t, mn] =>
    match i.toNat?, t.toNat?, mn.toNat? with
    | some i, some t, some mn =>
      -- created 5 ms into its slot; `interval` ticks immediately, then every `interval`
      some ({ p := { cfg := { interval := i, timeout := t, minIdle := mn } }, now := 10, nextTick := 5 + i }, "ok")
    | _, _, _ => none
  | _ => none

/-- the e2e `reuse n` scenario is predicted by the pool model -/
def reuseOp (n : Nat) : String :=
  let p : Pool := { cfg := { interval := Gen.poolCheckIntervalSecs * 1000, timeout := Gen.poolIdleTimeoutSecs * 1000, minIdle := Gen.poolMinIdle } }
  let (ids, dials) := sequentialRun n p 0
  s!"sessions=[{joinSep ", " (ids.map toString)}] dials={dials}"

end AnyTLS.Drv
