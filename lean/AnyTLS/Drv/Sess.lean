import AnyTLS.Model.Session
import AnyTLS.Model.Auth
import AnyTLS.Model.Sha256
import AnyTLS.Drv.Frame

namespace AnyTLS.Drv
open AnyTLS AnyTLS.Gen

/-- a model node: session + persistent decoder of its own wire (mirrors harness `Node`) -/
structure MNode where
  s : Sess
  seenWrites : Nat := 0
  decBuf : Bytes := []
  /-- harness handle ↦ index into `s.objs` (a stream object the harness holds an `Arc` of:
  returned by a successful `open`, or delivered to the new-stream callback) -/
  handles : List Nat := []
  /-- how many of `s.delivered` have been turned into handles -/
  seenDelivered : Nat := 0
  /-- short-write mode of the harness transport: report the total of the new writes -/
  coalesce : Bool := false
  deriving Inhabited

def bytesLt : Bytes → Bytes → Bool
  | [], [] => false
  | [], _ :: _ => true
  | _ :: _, [] => false
  | a :: as, b :: bs => if a < b then true else if b < a then false else bytesLt as bs

def joinBytes (sep : UInt8) : List Bytes → Bytes
  | [] => []
  | [x] => x
  | x :: xs => x ++ sep :: joinBytes sep xs

def sortLines (b : Bytes) : Bytes :=
  joinBytes 10 ((splitOnByte 10 b).toArray.qsort bytesLt |>.toList)

def showFrameCanon (f : Frame) : String :=
  match f.cmd with
  | .settings | .serverSettings => s!"{f.cmd.name}:{f.sid}:{hexOfBytes (sortLines f.data)}"
  | _ => showFrame f

def resStr : Res → String
  | .ok => "ok"
  | .errClosed => "err-closed"
  | .errIo => "err-io"
  | .errProto _ => "err-proto"

def b01 (b : Bool) : String := if b then "1" else "0"

def MNode.delta (n : MNode) : MNode × String :=
  let new := n.s.wire.drop n.seenWrites
  let total := (flatten new).length
  let lens := if n.coalesce then (if total > 0 then [toString total] else []) else new.map (fun w => toString w.length)
  let (fs, rest) := decodeAll (n.decBuf ++ flatten new)
  let newDelivered := n.s.delivered.drop n.seenDelivered
  let n' := { n with seenWrites := n.s.wire.length, decBuf := rest,
                     handles := n.handles ++ newDelivered, seenDelivered := n.s.delivered.length }
  (n', s!" | w=[{joinSep "," lens}] f=[{joinSep "," (fs.map showFrameCanon)}] rest={rest.length} shut={b01 n.s.shut}")

def natList (l : List Nat) : String := joinSep "," (l.map toString)

def sortedKeys (t : List (Nat × Nat)) : List Nat := (t.map (·.1)).toArray.qsort (· < ·) |>.toList

def parseKVs (s : String) : List (String × String) :=
  (s.splitOn ",").filterMap fun kv =>
    match kv.splitOn ":" with
    | [k, v] => some (k, v)
    | _ => none

/-- `reset <role> <schemehex> <seed> md5=<hex> [cb=1] [ss=k:v,k:v]` -/
def nodeReset (toks : List String) : Option (MNode × String) := do
  match toks with
  | role :: schemeHex :: seed :: md5tok :: opts =>
    let raw ← bytesOfHex schemeHex
    let seedN ← seed.toNat?
    let md5 ← (if md5tok.startsWith "md5=" then some (md5tok.drop 4).toString else none)
    match Scheme.parse raw with
    | none => none
    | some sch =>
      let cb := opts.contains "cb=1"
      let ss := match opts.find? (·.startsWith "ss=") with
        | some o => parseKVs (o.drop 3).toString
        | none => []
      if role == "client" then
        let s0 := Sess.initClient sch md5 (UInt64.ofNat seedN)
        let (s1, r) := s0.startClient
        let (n, d) := ({ s := s1 } : MNode).delta
        some (n, resStr r ++ d)
      else if role == "server" then
        let s0 := { Sess.initServer sch md5 (UInt64.ofNat seedN) with hasCallback := cb, serverSettings := ss }
        let (n, d) := ({ s := s0 } : MNode).delta
        some (n, "ok" ++ d)
      else none
  | _ => none

def showRead : ReadOut → String
  | .data b => "data " ++ hexOfBytes b
  | .eof => "eof"
  | .block => "block"

def showSyn (isClientHandle : Bool) (st : SynSt) : String :=
  -- the server side drops the receiving end at once: nothing is observable there
  if !isClientHandle then "none" else
  match st with
  | .pending => "pending"
  | .ok => "ok"
  | .err m => "err " ++ hexOfBytes (asciiBytes m)

/-- harness handle numbers of the streams delivered to the callback (server nodes: every handle) -/
def cbHandles (n : MNode) : List Nat :=
  if n.s.isClient then [] else
  -- handles are appended in delivery order; pending deliveries get the next numbers
  List.range (n.handles.length + (n.s.delivered.length - n.seenDelivered))

/-- ops on a node; returns `none` for an unparsable op -/
def nodeOp (n : MNode) (toks : List String) : Option (MNode × String) :=
  let fin := fun (s : Sess) (head : String) =>
    let (n', d) := ({ n with s := s } : MNode).delta
    some (n', head ++ d)
  match toks with
  | ["open"] =>
    match n.s.openStream with
    | (s', .ok, some h) =>
      let n1 := { n with handles := n.handles ++ [h] }
      let (n', d) := ({ n1 with s := s' } : MNode).delta
      some (n', s!"ok h={n1.handles.length - 1} sid={(s'.objs.getD h default).sid}" ++ d)
    | (s', r, _) => fin s' (resStr r)
  | ["nobuf"] => fin { n.s with buffering := false } "ok"
  | ["write", sid, hx] =>
    match sid.toNat?, bytesOfHex hx with
    | some sid, some d => let (s', r) := n.s.writeData sid d; fin s' (resStr r)
    | _, _ => none
  | ["ctl", c, sid, hx] =>
    match cmdOfName c, sid.toNat?, bytesOfHex hx with
    | some c, some sid, some d => let (s', r) := n.s.writeFrame { cmd := c, sid := sid, data := d }; fin s' (resStr r)
    | _, _, _ => none
  | ["send", h, hx] =>
    match h.toNat?, bytesOfHex hx with
    | some h, some d =>
      match (n.handles[h]?).bind (fun i => (n.s.objs[i]?).map (fun o => (i, o))) with
      | none => fin n.s "nohandle"
      | some (_, o) =>
        -- the forwarding task exits when the session closes; its receiver is then gone
        if n.s.closed then fin n.s "err-chan"
        else let (s', _) := n.s.writeData o.sid d; fin s' "ok"
    | _, _ => none
  | "sendmany" :: h :: hxs =>
    match h.toNat?, allSome (hxs.map bytesOfHex) with
    | some h, some ds =>
      match (n.handles[h]?).bind (fun i => (n.s.objs[i]?).map (fun o => (i, o))) with
      | none => fin n.s "nohandle"
      | some (_, o) =>
        if n.s.closed then fin n.s "err-chan"
        else fin (ds.foldl (fun s d => (s.writeData o.sid d).1) n.s) "ok"
    | _, _ => none
  | ["feed", hx] =>
    match bytesOfHex hx with
    | some d => fin (if d.isEmpty then n.s else n.s.feedBytes d) "ok"
    | none => none
  | ["eof"] => fin n.s.feedEnd "ok"
  | ["rderr"] => fin n.s.feedEnd "ok"
  | ["budget", k] =>
    if k == "none" then fin { n.s with wrBudget := none } "ok"
    else match k.toNat? with
      | some v => fin { n.s with wrBudget := some v } "ok"
      | none => none
  | ["read", h, k] =>
    match h.toNat?, k.toNat? with
    | some h, some k =>
      match (n.handles[h]?).bind (fun i => (n.s.objs[i]?).map (fun o => (i, o))) with
      | none => fin n.s "nohandle"
      | some (i, o) =>
        let (out, rd') := o.rd.read k
        fin (n.s.modObj i fun o => { o with rd := rd' }) (showRead out)
    | _, _ => none
  | ["readx", h, k] =>
    match h.toNat?, k.toNat? with
    | some h, some k =>
      match (n.handles[h]?).bind (fun i => (n.s.objs[i]?).map (fun o => (i, o))) with
      | none => fin n.s "nohandle"
      | some (i, o) =>
        let (out, rd') := o.rd.readExact k
        let head := match out with
          | .ok b => "ok " ++ hexOfBytes b
          | .eofErr _ => "err-eof"
          | .block _ => "block"
        fin (n.s.modObj i fun o => { o with rd := rd' }) head
    | _, _ => none
  | ["shortw", k] =>
    match k.toNat? with
    | some k =>
      let (n', d) := ({ n with coalesce := k > 0 } : MNode).delta
      some (n', "ok" ++ d)
    | none => none
  | ["close"] => fin n.s.close "ok"
  | ["state"] =>
    let s := n.s
    fin s s!"closed={b01 s.closed} streams=[{natList (sortedKeys s.streams)}] recv=[{natList (sortedKeys s.recv)}] pv={s.peerVersion} pkt={s.pktCounter} buf={b01 s.buffering},{s.buffer.length} cb=[{natList (cbHandles n)}]"
  | ["obj", h] =>
    match h.toNat? with
    | some h =>
      match (n.handles[h]?).bind (fun i => (n.s.objs[i]?).map (fun o => (i, o))) with
      | none => fin n.s "nohandle"
      | some (_, o) => fin n.s s!"sid={o.sid} closed={b01 o.closedFlag} synack={showSyn n.s.isClient o.synack}"
    | none => none
  | _ => none

/-- `pad preamble <schemehex> <seed> <hashhex>` -/
def preambleOp (toks : List String) : String :=
  match toks with
  | [sch, seed, hash] =>
    match bytesOfHex sch, seed.toNat?, bytesOfHex hash with
    | some raw, some seedN, some h =>
      match Scheme.parse raw with
      | none => "reject"
      | some s =>
        let specs := s.specs 0
        let (rs, _) := drawN (drawsNeeded specs) (UInt64.ofNat seedN)
        let ws := preamble h s rs
        s!"ok w=[{joinSep "," (ws.map (fun w => toString w.length))}] bytes={hexOfBytes (flatten ws)}"
    | _, _, _ => "bad-op"
  | _ => "bad-op"

/-- `auth v|conn <exphex> <eof> <chunk>...` -/
def authOp (toks : List String) : String :=
  match toks with
  | kind :: exp :: eof :: chunks =>
    -- `~ms` tokens are pauses between chunks: the verdict depends on the bytes only
    let chunks := chunks.filter (fun c => !c.startsWith "~")
    match bytesOfHex exp, allSome (chunks.map bytesOfHex) with
    | some exp, some cs =>
      -- kind `pw`: the field is the configured password, the server compares with its SHA-256
      let exp := if kind == "pw" then Sha256.digest exp else exp
      let kind := if kind == "pw" then "v" else kind
      let inp := flatten cs
      let v := authServer exp inp
      let verdict := match v with
        | .accept _ => "accept"
        | .reject => "reject"
        | .needMore => if eof == "1" then "err-eof" else "more"
      if kind == "v" then
        let consumed := match v with
          | .accept n => n
          | .reject => 32
          | .needMore => inp.length
        s!"{verdict} consumed={consumed}"
      else if kind == "conn" then
        match v with
        | .accept n =>
          match Scheme.parse (asciiBytes "stop=0") with
          | none => "bad-op"
          | some sch =>
            let s0 := { Sess.initServer sch "" 0 with hasCallback := true }
            let rest := inp.drop n
            let s1 := if rest.isEmpty then s0 else s0.feedBytes rest
            let nd : MNode := { s := s1 }
            let (nd, _) := nd.delta
            match nodeOp nd ["state"] with
            | some (_, o) => "accept " ++ ((o.splitOn " | ").headD "")
            | none => "bad-op"
        | _ => verdict ++ " nosession"
      else "bad-op"
    | _, _ => "bad-op"
  | _ => "bad-op"

end AnyTLS.Drv
