import AnyTLS.Model.Open
import AnyTLS.Drv.Sess

namespace AnyTLS.Drv
open AnyTLS

structure MOpen where
  st : OpenSt
  node : MNode      -- wire decoder state mirrors the harness Node
  deriving Inhabited

def showOpenRes : OpenRes → String
  | .ok => "ok"
  | .serverError msg =>
    -- "Protocol error: Protocol error: Server error: <text>"
    let parts := msg.splitOn "Server error: "
    let raw := asciiBytes (parts.getD 1 "")
    -- a reason that is not UTF-8 reaches the caller through a lossy conversion: canonical form `lossy`
    if ByteArray.validateUTF8 (ByteArray.mk raw.toArray) then "err-server " ++ hexOfBytes raw else "err-server lossy"
  | .sessionError => "err-session"
  | .closedByPeer => "err-fin"
  | .timeout => "err-timeout"

def openReset : Option MOpen := do
  let sch ← Scheme.parse (asciiBytes "stop=0")
  let s0 := Sess.initClient sch (Md5.hex sch.raw) 0
  let (s1, _) := s0.startClient
  let (n, _) := ({ s := s1 } : MNode).delta
  some { st := { s := s1 }, node := n }

def destBytes : Bytes := (encodeDest (.domain (asciiBytes "t.example") 443)).getD []

/-- every op occupies one 10 ms slot; `start` happens 5 ms into its slot -/
def openOp (m : MOpen) (toks : List String) : Option (MOpen × String) :=
  let sync := fun (st : OpenSt) (head : String) (slot : Nat) =>
    let (n', d) := ({ m.node with s := st.s } : MNode).delta
    some ({ st := { st with now := st.now + slot }, node := n' }, head ++ d)
  match toks with
  | ["start", _] =>
    if m.st.s.closed then some ({ m with st := { m.st with now := m.st.now + 10 } }, "skip-closed")
    else
      let st := (fireTimeouts { m.st with now := m.st.now + 5 }).start destBytes
      sync st "started" 5
  | ["feed", hx] =>
    match bytesOfHex hx with
    | some b => sync (m.st.feed b) "ok" 10
    | none => none
  | ["eof"] => sync (m.st.sessionEnd false) "ok" 10
  | ["close"] => sync (m.st.sessionEnd true) "ok" 10
  | ["tick", ms] =>
    match ms.toNat? with
    | some k => some ({ m with st := m.st.advance k }, "ok")
    | none => none
  | ["poll", i] =>
    match i.toNat? with
    | some i =>
      let st := fireTimeouts m.st
      let r := match st.reqs[i]? with
        | none => "norequest"
        | some r => match r.done with
          | some (v, _) => showOpenRes v
          | none => "pending"
      some ({ m with st := { st with now := st.now + 10 } }, r)
    | none => none
  | _ => none

end AnyTLS.Drv
