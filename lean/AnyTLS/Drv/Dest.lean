import AnyTLS.Gen
import AnyTLS.Model.Dest
import AnyTLS.Model.UdpRelay
import AnyTLS.Drv.Util

namespace AnyTLS.Drv
open AnyTLS

def showDest : Dest → String
  | .v4 a p => s!"ip {hexOfBytes a} {p}"
  | .v6 a p => s!"ip {hexOfBytes a} {p}"
  | .domain d p => s!"name {hexOfBytes d} {p}"

def readAllR (r : RState) : Bytes :=
  -- what `read_all_available` obtains: everything deliverable
  r.pending

def mkReader (chunks : List Bytes) (isOpen : Bool) : RState := { queue := chunks, chanOpen := isOpen }

def isIpLiteralName (_d : Bytes) : Bool := false

/-- a dotted-quad IPv4 literal (what the generators use as the only name in UDP requests: it resolves
to itself without the OS resolver) -/
def isV4LiteralName (d : Bytes) : Bool :=
  let parts := (String.ofList (d.map (fun b => Char.ofNat b.toNat))).splitOn "."
  parts.length == 4 && parts.all (fun p => !p.isEmpty && p.length ≤ 3 && p.all Char.isDigit && p.toNat! ≤ 255 && (p.length == 1 || !p.startsWith "0"))

def destOp (toks : List String) : String :=
  match toks with
  | "dec" :: isOpen :: chunks =>
    -- `~ms` tokens are pauses between chunks: what is decoded depends on the bytes only
    let chunks := chunks.filter (fun c => !c.startsWith "~")
    match allSome (chunks.map bytesOfHex) with
    | some cs =>
      match decodeDest (mkReader cs (isOpen == "1")) with
      | (.ok d, r') => s!"ok {showDest d} rest={hexOfBytes (readAllR r')}"
      | (.err, _) => "err"
      | (.block, _) => "block"
    | none => "bad-op"
  | "udpreq" :: isOpen :: chunks =>
    let chunks := chunks.filter (fun c => !c.startsWith "~")
    match allSome (chunks.map bytesOfHex) with
    | some cs =>
      match decodeUdpRequest (mkReader cs (isOpen == "1")) with
      | (.ok (.domain d p), r') =>
        -- any other name goes to the OS resolver: environment-dependent, judged by the oracle only
        if isV4LiteralName d then s!"ok {showDest (.domain d p)} rest={hexOfBytes (readAllR r')}" else "skip"
      | (.ok d, r') => s!"ok {showDest d} rest={hexOfBytes (readAllR r')}"
      | (.err, _) => "err"
      | (.block, _) => "block"
    | none => "bad-op"
  | ["enc", kind, hx, port] =>
    match kind.toNat?, bytesOfHex hx, port.toNat? with
    | some k, some a, some p =>
      let d := if k == 1 then some (Dest.v4 a p) else if k == 4 then some (Dest.v6 a p) else if k == 3 then some (Dest.domain a p) else none
      match d with
      | none => "bad-op"
      | some d =>
        match encodeDest d with
        | some b => "ok " ++ hexOfBytes b
        | none => "none"
    | _, _, _ => "bad-op"
  | ["dgenc", side, hx] =>
    match bytesOfHex hx with
    | some d =>
      let mx := if side == "c" then Gen.udpMaxClient else Gen.udpMaxServer
      match encodeDgram mx d with
      | some b => "ok " ++ hexOfBytes b
      | none => "err"
    | none => "bad-op"
  | "aread" :: script =>
    -- the AsyncRead side of an owned Stream = the chunk-queue reader; an abandoned read consumes nothing
    let step := fun (acc : Option (RState × List String)) (t : String) =>
      match acc with
      | none => none
      | some (r, outs) =>
        if t.startsWith "c:" then (bytesOfHex (t.drop 2).toString).map (fun d => (r.push d, outs))
        else if t.startsWith "r:" then
          match (t.drop 2).toString.toNat? with
          | some n =>
            match r.read n with
            | (.data b, r') => some (r', outs ++ ["d" ++ hexOfBytes b])
            | (.eof, r') => some (r', outs ++ ["eof"])
            | (.block, r') => some (r', outs ++ ["block"])
          | none => none
        else if t == "x" then some (r.closeChan, outs)
        else none
    match script.foldl step (some (({} : RState), [])) with
    | some (_, outs) => joinSep "," outs
    | none => "bad-op"
  | "udpback" :: dgrams =>
    -- the server's udp → stream loop (its slice regenerated from the source): the chunks submitted for these datagrams
    match allSome (dgrams.map bytesOfHex) with
    | some ds =>
      match Gen.udpSites.find? (fun s => s.dir == .toStream && s.file == "src/server/udp_proxy.rs") with
      | some site =>
        let cs := UdpRelay.toStream Gen.udpMaxServer site.slice (zeros Gen.udpMaxServer) ds
        "[" ++ joinSep "," (cs.map hexOfBytes) ++ "]"
      | none => "no-site"
    | none => "bad-op"
  | "udprelay" :: chunks =>
    -- the server's relay loop: the complete datagrams of the byte stream, in order (pauses do not matter)
    let chunks := chunks.filter (fun c => !c.startsWith "~")
    match allSome (chunks.map bytesOfHex) with
    | some cs =>
      let r := mkReader cs true
      let fuel := (flatten cs).length + 2
      let (ds, _) := readDgrams fuel r []
      "[" ++ joinSep "," (ds.map hexOfBytes) ++ "]"
    | none => "bad-op"
  | "dgdec" :: _side :: isOpen :: chunks =>
    match allSome (chunks.map bytesOfHex) with
    | some cs =>
      let r := mkReader cs (isOpen == "1")
      let fuel := (flatten cs).length + 2
      let (ds, r') := readDgrams fuel r []
      -- why the loop stopped
      let stop := match readDgram r' with
        | (.ok d, _) => if d.isEmpty then "zero" else "more"
        | (.err, _) => "err"
        | (.block, _) => "block"
      -- `readDgrams` consumes the terminating read itself: recompute the reason on the state before it
      let endS := if ds.length == 0 ∨ true then
          (let rec go (fuel : Nat) (r : RState) : String :=
            match fuel with
            | 0 => "block"
            | f + 1 =>
              match readDgram r with
              | (.ok d, r2) => if d.isEmpty then "zero" else go f r2
              | (.err, _) => "err"
              | (.block, _) => "block"
           go fuel r)
        else stop
      s!"[{joinSep "," (ds.map hexOfBytes)}] end={endS}"
    | none => "bad-op"
  | _ => "bad-op"

def parseAddrs (s : String) : Option (List (Bytes × Nat)) :=
  allSome ((s.splitOn ",").map fun a =>
    match a.splitOn ":" with
    | [ip, port] =>
      match bytesOfHex ip, port.toNat? with
      | some i, some p => some (i, p)
      | _, _ => none
    | _ => none)

/-- resolver ops over the model cache -/
def dnsOp (c : DnsCache) (toks : List String) : DnsCache × String :=
  match toks with
  | ["clear"] => ([], "ok")
  | ["seed", h, addrs] =>
    match bytesOfHex h, parseAddrs addrs with
    | some h, some as => (dnsPut c { host := h, addrs := as, expired := false, next := 0 }, "ok")
    | _, _ => (c, "bad-op")
  | ["expire", h] =>
    match bytesOfHex h with
    | some h =>
      match dnsFind c h with
      | some e => (dnsPut c { e with expired := true }, "ok")
      | none => (c, "ok")
    | none => (c, "bad-op")
  | ["resolve", h, port] =>
    match bytesOfHex h, port.toNat? with
    | some h, some p =>
      -- misses never happen in compared histories (no lookup answer is available offline)
      match dnsResolve c h p [] with
      | (c', some (ip, p')) => (c', s!"ok {hexOfBytes ip} {p'}")
      | (c', none) => (c', "err")
    | _, _ => (c, "bad-op")
  | ["literal", ip, port] =>
    match bytesOfHex ip, port.toNat? with
    | some i, some p => (c, s!"ok {hexOfBytes i} {p}")
    | _, _ => (c, "bad-op")
  | ["rlocal2", p1, p2] =>
    -- two overlapping requests for the same (uncached) name: each gets its own port
    match p1.toNat?, p2.toNat? with
    | some a, some b => (c, s!"ok ports={a},{b} loopback=1,1")
    | _, _ => (c, "bad-op")
  | ["rlocal", port] =>
    match port.toNat? with
    | some p => (c, s!"ok port={p} loopback=1")
    | none => (c, "bad-op")
  | _ => (c, "bad-op")

end AnyTLS.Drv
