import AnyTLS.Model.Http
import AnyTLS.Drv.Util

namespace AnyTLS.Drv
open AnyTLS AnyTLS.Http

def errName : Http.Err → String
  | .requestLine => "reqline"
  | .hostMissing => "host"
  | .utf8 => "utf8"
  | .tooLarge => "toolarge"
  | .closedEarly => "closed"

def hexStr (s : Str) : String := hexOfBytes (utf8Encode s)

def parseObs (header body : Bytes) : String :=
  match utf8Decode header with
  | none => "err utf8"
  | some h =>
    match parseRequest h body with
    | .error e => "err " ++ errName e
    | .ok q =>
      let fwd := if q.isConnect then "none" else hexOfBytes (utf8Encode (buildForward q))
      s!"ok connect={if q.isConnect then 1 else 0} host={hexStr q.host} port={q.port} method={hexStr q.method} version={hexStr q.version} path={hexStr q.path} nhdr={q.headers.length} body={hexOfBytes q.body} fwd={fwd}"

/-- what one `read` into the 1024-byte buffer returns when everything is already there -/
def slices (n : Nat) (b : Bytes) : List Bytes :=
  if h : n = 0 ∨ b.length ≤ n then (if b.isEmpty then [] else [b]) else b.take n :: slices n (b.drop n)
termination_by b.length
decreasing_by simp only [List.length_drop]; omega

def ascii (s : String) : Bytes := utf8Encode s.toList

/-- the request the harness builds for an end-to-end case (port canonicalised to 40000) -/
def connHead (form : String) (v6 : Bool) : Bytes :=
  let auth := if v6 then "[::1]:40000" else "127.0.0.1:40000"
  if form == "connect" then ascii s!"CONNECT {auth} HTTP/1.1\r\nHost: {auth}\r\n\r\n"
  else if form == "abs" then ascii s!"POST http://{auth}/p?q=1 HTTP/1.1\r\nUser-Agent: t\r\nHOST: ignored.example\r\nAccept: */*\r\n\r\n"
  else ascii s!"PUT /up HTTP/1.0\r\nAccept: */*\r\nhOsT:  {auth} \r\nX-Last: 1\r\n\r\n"

def httpOp (toks : List String) : String :=
  match toks with
  | ["parse", h, b] =>
    match bytesOfHex h, bytesOfHex b with
    | some h, some b => parseObs h b
    | _, _ => "bad-op"
  | ["wf", h, b, _, _, _, _] =>
    match bytesOfHex h, bytesOfHex b with
    | some h, some b => parseObs h b
    | _, _ => "bad-op"
  | ["read", hx, _] => httpOp ["read", hx]
  | ["read", hx] =>
    match bytesOfHex hx with
    | some stream =>
      match readHeader Gen.httpMaxHeader [] (slices 1024 stream) with
      | .ok hd rem later => s!"ok hdr={hd.length} rest={hexOfBytes (rem ++ later.flatten)}"
      | .err e => "err " ++ errName e
    | none => "bad-op"
  | ["conn", up, v6, form, early, later] =>
    match bytesOfHex early, bytesOfHex later with
    | some early, some later =>
      let chunks := [connHead form (v6 == "1") ++ early] ++ (if later.isEmpty then [] else [later])
      let evs := conn Gen.httpMaxHeader chunks (up == "up")
      let reply := evs.flatMap (fun e => match e with | .reply b => b | _ => [])
      let origin := evs.flatMap (fun e => match e with | .send b => b | _ => [])
      let tunnel := up == "up" && evs.any (fun e => match e with | .openTunnel _ _ => true | _ => false)
      s!"reply={hexOfBytes reply} tunnel={if tunnel then 1 else 0} origin={hexOfBytes origin}"
    | _, _ => "bad-op"
  | ["keepalive"] =>
    let r1 := ascii "GET http://127.0.0.1:40000/one HTTP/1.1\r\n\r\n"
    let r2 := ascii "GET http://127.0.0.1:40001/two HTTP/1.1\r\n\r\n"
    let evs := conn Gen.httpMaxHeader [r1, r2] true
    let opens := evs.filter (fun e => match e with | .openTunnel _ _ => true | _ => false)
    if opens.length == 1 then "second_to=A" else "second_to=B"
  | _ => "bad-op"

end AnyTLS.Drv
