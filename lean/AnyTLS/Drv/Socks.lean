import AnyTLS.Model.Socks
import AnyTLS.Drv.Dest

namespace AnyTLS.Drv
open AnyTLS

def socksOp (toks : List String) : String :=
  match toks with
  | ["greet", hx, _] => socksOp ["greet", hx]
  | ["req", hx, _] => socksOp ["req", hx]
  | ["greet", hx] =>
    match bytesOfHex hx with
    | some inp =>
      match socksGreeting inp with
      | .ok _ => "ok reply=0500"
      | .close r => "err reply=" ++ hexOfBytes r
      | .needMore => "err reply=-"
    | none => "bad-op"
  | ["req", hx] =>
    match bytesOfHex hx with
    | some inp =>
      match socksRequest inp with
      | .ok r _ => s!"ok cmd={r.cmd.toNat} {showDest r.dest}"
      | _ => "err"
    | none => "bad-op"
  | ["conn", cmd, up, greet, early] =>
    match cmd.toNat?, bytesOfHex greet, bytesOfHex early with
    | some c, some g, some e =>
      let inp := g ++ [5, UInt8.ofNat c, 0, 1, 127, 0, 0, 1, 0, 80] ++ e
      match socksConn inp (up == "up") with
      | .closed r => s!"replies={hexOfBytes r} tunnel=0 delivered=-"
      | .failed r _ => s!"replies={hexOfBytes r} tunnel=0 delivered=-"
      | .tunnelled r _ early => s!"replies={hexOfBytes r} tunnel=1 delivered={hexOfBytes early}"
    | _, _, _ => "bad-op"
  | _ => "bad-op"

end AnyTLS.Drv
