/-
M1 — frame codec (src/protocol/codec.rs, src/protocol/frame.rs).
`Cmd`, `Cmd.toByte`, `Cmd.ofByte`, `headerSize` come from the generated `Gen.lean`.
-/
import AnyTLS.Gen
import AnyTLS.Model.Bytes

namespace AnyTLS
open Gen

structure Frame where
  cmd : Cmd
  sid : Nat
  data : Bytes
  deriving DecidableEq, Repr, Inhabited

/-- header bytes for a command byte, stream id and a length field value -/
def header (cmdByte sid len : Nat) : Bytes :=
  UInt8.ofNat cmdByte :: (be32 sid ++ be16 len)

/-- The *pinned* encoder: `put_u16(data_len as u16)` followed by all the bytes. -/
def encodeTrunc (f : Frame) : Bytes :=
  header f.cmd.toByte f.sid (toU16 f.data.length) ++ f.data

/-- `FrameCodec::encode` after the repair: a payload that does not fit the length field is
refused and nothing is emitted. -/
def encode (f : Frame) : Option Bytes :=
  if f.data.length > 65535 then none
  else some (header f.cmd.toByte f.sid f.data.length ++ f.data)

/-- One call of `FrameCodec::decode` on a buffer: `none` = `Ok(None)` (buffer untouched),
`some (f, rest)` = `Ok(Some(f))` with `rest` left in the buffer. -/
def decodeStep (b : Bytes) : Option (Frame × Bytes) :=
  match b with
  | c :: s0 :: s1 :: s2 :: s3 :: l0 :: l1 :: rest =>
    let len := rd16 l0 l1
    if rest.length < len then none
    else some ({ cmd := Cmd.ofByte c.toNat, sid := rd32 s0 s1 s2 s3, data := rest.take len },
               rest.drop len)
  | _ => none

/-- `while let Some(frame) = codec.decode(&mut buffer)` with explicit fuel
(structural; `decodeAll` instantiates the fuel with the buffer length). -/
def decodeFuel : Nat → Bytes → List Frame × Bytes
  | 0, b => ([], b)
  | n + 1, b =>
    match decodeStep b with
    | none => ([], b)
    | some (f, r) => let (fs, r') := decodeFuel n r; (f :: fs, r')

/-- All complete frames at the front of a buffer, and the undecoded residue. -/
def decodeAll (b : Bytes) : List Frame × Bytes := decodeFuel b.length b

/-- The receive loop's buffer: feed one transport read. -/
def feed (buf chunk : Bytes) : List Frame × Bytes := decodeAll (buf ++ chunk)

/-- Feed a sequence of transport reads, collecting frames. -/
def feedAll : Bytes → List Bytes → List Frame × Bytes
  | buf, [] => ([], buf)
  | buf, c :: cs =>
    let (fs, buf') := feed buf c
    let (gs, buf'') := feedAll buf' cs
    (fs ++ gs, buf'')

end AnyTLS
