/-
M0 — bytes, big-endian integers, Rust integer casts.
Import-free (core only) so that the driver links as a plain `lean_exe`.
-/
namespace AnyTLS

abbrev Bytes := List UInt8

/-- `u16::to_be_bytes` of `n % 65536` (i.e. of `n as u16`). -/
def be16 (n : Nat) : Bytes := [UInt8.ofNat (n / 256 % 256), UInt8.ofNat (n % 256)]

/-- `u32::to_be_bytes` of `n % 2^32`. -/
def be32 (n : Nat) : Bytes :=
  [UInt8.ofNat (n / 16777216 % 256), UInt8.ofNat (n / 65536 % 256),
   UInt8.ofNat (n / 256 % 256), UInt8.ofNat (n % 256)]

def rd16 (a b : UInt8) : Nat := a.toNat * 256 + b.toNat

def rd32 (a b c d : UInt8) : Nat :=
  a.toNat * 16777216 + b.toNat * 65536 + c.toNat * 256 + d.toNat

/-- `x as u16` for a `usize` -/
def toU16 (n : Nat) : Nat := n % 65536

/-- `x as i32` for an `i64` (two's-complement wrap) -/
def toI32 (x : Int) : Int :=
  let m := x % 4294967296
  if m ≥ 2147483648 then m - 4294967296 else m

/-- `x as usize` for an `i32` on a 64-bit target -/
def i32AsUsize (x : Int) : Nat :=
  if x < 0 then (18446744073709551616 + x).toNat else x.toNat

def zeros (n : Nat) : Bytes := List.replicate n 0

def flatten (l : List Bytes) : Bytes := l.foldr (· ++ ·) []

@[simp] theorem flatten_nil : flatten [] = [] := rfl
@[simp] theorem flatten_cons (a : Bytes) (l : List Bytes) : flatten (a :: l) = a ++ flatten l := rfl

theorem flatten_append (a b : List Bytes) : flatten (a ++ b) = flatten a ++ flatten b := by
  induction a with
  | nil => simp
  | cons x xs ih => simp [ih, List.append_assoc]

end AnyTLS
