/-
M13 — interleaving semantics of the write / open / close paths of one session
(src/session/session.rs `write_frame`, `write_with_padding`, `write_data_frame`, `open_stream`,
`close`, `handle_io_error`), one atomic action per access to shared state, for any number of
tasks.  Locks are tokio's FIFO mutexes: a release hands the lock to the first waiter.

`micro cs t` is ONE atomic action of task `t` (`none`: the task is finished or waits for a
lock).  The transition relation of the theorems is "some task takes a micro action"
(`Step`), i.e. pre-emption is possible between any two actions — finer than the hook points
the harness can park a task at.  The executable scheduler used by the correspondence check
(`stepTask`, `settle`) only ever composes micro actions, so every state it produces is
reachable in the sense of the theorems.
-/
import AnyTLS.Model.Session

namespace AnyTLS

/-! ### the sequential pieces, split at the points where another task can run -/

/-- `write_with_padding` up to the writer lock: packet counter, draws; the `write_all` calls to make -/
def Sess.prepare (s : Sess) (payload : Bytes) : Sess × List Bytes :=
  if !s.sendPadding then (s, [payload])
  else
    let pkt := s.pktCounter + Gen.pktFetchOffset
    let s := { s with pktCounter := s.pktCounter + 1 }
    if pkt ≥ s.scheme.stop then (s, [payload])
    else
      let specs := s.scheme.specs pkt
      let (rs, rng') := drawN (drawsNeeded specs) s.rng
      let s := { s with rng := rng' }
      let sizes := resolve specs rs
      if sizes.isEmpty then (s, [payload]) else (s, shape sizes payload)

/-- one `write_all` on the transport: `none` = it failed -/
def Sess.transportWrite (s : Sess) (w : Bytes) : Option Sess :=
  if s.shut then none
  else match s.wrBudget with
    | some 0 => none
    | some (n + 1) => some { s with wrBudget := some n, wire := s.wire ++ [w] }
    | none => some { s with wire := s.wire ++ [w] }

/-- `close()`: the drain of the stream tables (after the flag swap) -/
def Sess.closeDrain (s : Sess) : Sess :=
  let inStreams := fun (i : Nat) => s.streams.any (·.2 == i)
  let objs := s.objs.mapIdx fun i o =>
    let o := if inStreams i then o.closeWithError.notifySynack (.err "Protocol error: Session closed") else o
    if s.recv.any (fun kv => kv.2 == i && s.streams.any (·.1 == kv.1)) then { o with rd := o.rd.closeChan } else o
  { s with objs := objs, recv := s.recv.filter (fun kv => !(s.streams.any (·.1 == kv.1))), streams := [] }

/-- `open_stream` after the closed check: allocate the id, register the stream -/
def Sess.register (s : Sess) : Sess × Nat × Nat :=
  let sid := s.nextSid
  let h := s.objs.length
  ({ s with nextSid := s.nextSid + 1, objs := s.objs ++ [({ sid := sid } : Obj)],
            recv := tblInsert s.recv sid h, streams := tblInsert s.streams sid h }, sid, h)

/-! ### tasks -/

inductive COp where
  | write (f : Frame)
  | data (sid : Nat) (payload : Bytes)
  /-- `write_data_frame` on the stream this task opened last (what `create_proxy_stream` and the
  forwarders do after their own `open_stream` returned) -/
  | dataOwn (payload : Bytes)
  | open
  | nobuf
  | close
  deriving Repr, DecidableEq, Inhabited

/-- what a finished `close()` returns to -/
inductive CloseK where
  /-- `close()` was the operation -/
  | op
  /-- `close()` was called by `handle_io_error` inside `write_frame` (buffer lock still held);
  `fs` are the encoded frames of the operation, the head being the one whose write failed -/
  | inWrite (fs : List Bytes)
  deriving Repr, DecidableEq, Inhabited

inductive PC where
  /-- before the next operation (the harness parks a controlled task here) -/
  | idle
  /-- `open_stream` passed its closed check (`os:checked`) -/
  | openChecked
  /-- at the start of `write_frame` for the head of `fs` (`wf:enter`); `fs` are the encoded frames
  the operation still has to write (`write_data_frame` has one per 65535-byte chunk) -/
  | enter (fs : List Bytes)
  /-- queued on the buffer lock -/
  | waitBuf (fs : List Bytes)
  /-- holds the buffer lock (`wf:locked`) -/
  | locked (fs : List Bytes)
  /-- holds the buffer lock, pieces prepared, about to request the writer lock (`wp:lock`) -/
  | preWr (ps : List Bytes) (fs : List Bytes)
  /-- holds the buffer lock, queued on the writer lock -/
  | waitWr (ps : List Bytes) (fs : List Bytes)
  /-- holds both locks, about to write the head of `ps` (`wp:piece`) -/
  | piece (ps : List Bytes) (fs : List Bytes)
  /-- `write_with_padding` returned `r`; buffer lock still held (`wf:done`) -/
  | wdone (r : Res) (fs : List Bytes)
  /-- `close()`: flag set (`cl:flag`) -/
  | cflag (k : CloseK)
  /-- `close()`: tables drained (`cl:drained`) -/
  | cdrained (k : CloseK)
  /-- `close()`: queued on the writer lock -/
  | cwait (k : CloseK)
  /-- `close()`: holds the writer lock, about to shut the transport down -/
  | cshut (k : CloseK)
  | fin
  deriving Repr, DecidableEq, Inhabited

structure Task where
  /-- parks at the hook points (a harness task); an uncontrolled task (the receive loop reacting
  to EOF / a read error / an Alert) runs whenever it can -/
  controlled : Bool := true
  ops : List COp := []
  /-- ghost: the program the task started with -/
  allOps : List COp := []
  pc : PC := .idle
  /-- results of the finished operations, oldest first -/
  results : List Res := []
  /-- ghost: per `open` operation started so far, the stream id it registered (`none`: refused at
  the closed check) -/
  sids : List (Option Nat) := []
  /-- ghost: the encoded frames handed to `write_frame` so far, in submission order -/
  submitted : List Bytes := []
  deriving Repr, DecidableEq, Inhabited

/-- ghost: one unit accepted into the logical frame sequence -/
structure Unit' where
  /-- the submitting task, `none` for padding inserted by the write path and for frames that were
  in the buffer initially -/
  owner : Option Nat
  bytes : Bytes
  deriving Repr, DecidableEq, Inhabited

structure CS where
  s : Sess
  /-- the tasks, by id; ids `≥ n` are unused (finished tasks with nothing to do) -/
  tasks : Nat → Task := fun _ => { pc := .fin }
  n : Nat := 0
  bufHolder : Option Nat := none
  bufQ : List Nat := []
  wrHolder : Option Nat := none
  wrQ : List Nat := []
  /-- ghost: everything accepted by `write_frame` so far, in acceptance order (including what is
  still buffered) and the padding appended by the write path -/
  log : List Unit' := []
  /-- ghost: a transport write has failed (the rest of that write was dropped) -/
  failed : Bool := false
  deriving Inhabited

def CS.task (cs : CS) (t : Nat) : Task := cs.tasks t

def CS.setTask (cs : CS) (t : Nat) (f : Task → Task) : CS :=
  { cs with tasks := fun i => if i = t then f (cs.tasks i) else cs.tasks i }

/-- a new task appears (spawned by the application, or the receive loop reacting to an event) -/
def CS.spawn (cs : CS) (k : Task) : CS :=
  { cs with tasks := fun i => if i = cs.n then k else cs.tasks i, n := cs.n + 1 }

def CS.setPC (cs : CS) (t : Nat) (pc : PC) : CS := cs.setTask t (fun k => { k with pc := pc })

/-- the wire image of a frame (`[]` for a frame the codec refuses; such frames never get this far) -/
def encodeD (f : Frame) : Bytes := (encode f).getD []

/-- the operation hands `fs` to `write_frame`, one after the other (ghost: they count as submitted) -/
def CS.submit (cs : CS) (t : Nat) (fs : List Bytes) : CS :=
  cs.setTask t (fun k => { k with pc := .enter fs, submitted := k.submitted ++ fs })

/-- the operation at the head of the task's list finished with `r` -/
def CS.finishOp (cs : CS) (t : Nat) (r : Res) : CS :=
  cs.setTask t (fun k => { k with pc := .idle, ops := k.ops.tail, results := k.results ++ [r] })

/-- release the buffer lock: the first waiter (if any) now holds it and is at `wf:locked` -/
def CS.releaseBuf (cs : CS) : CS :=
  match cs.bufQ with
  | [] => { cs with bufHolder := none }
  | w :: q =>
    let cs := { cs with bufHolder := some w, bufQ := q }
    match (cs.task w).pc with
    | .waitBuf fs => cs.setPC w (.locked fs)
    | _ => cs

/-- release the writer lock: the first waiter now holds it -/
def CS.releaseWr (cs : CS) : CS :=
  match cs.wrQ with
  | [] => { cs with wrHolder := none }
  | w :: q =>
    let cs := { cs with wrHolder := some w, wrQ := q }
    match (cs.task w).pc with
    | .waitWr ps fs => cs.setPC w (.piece ps fs)
    | .cwait k => cs.setPC w (.cshut k)
    | _ => cs

/-- `writer.lock().await` for the write path -/
def CS.lockWrWrite (cs : CS) (t : Nat) (ps : List Bytes) (fs : List Bytes) : CS :=
  match cs.wrHolder with
  | none => { cs with wrHolder := some t }.setPC t (.piece ps fs)
  | some _ => { cs with wrQ := cs.wrQ ++ [t] }.setPC t (.waitWr ps fs)

/-- the frames of a `write_data_frame` call: 65535-byte chunks -/
def dataFrames : Nat → Nat → Bytes → List Frame
  | 0, _, _ => []
  | fuel + 1, sid, data =>
    if data.length > 65535 then { cmd := .push, sid := sid, data := data.take 65535 } :: dataFrames fuel sid (data.drop 65535)
    else [{ cmd := .push, sid := sid, data := data }]

/-- `close()` entry: the flag swap -/
def CS.enterClose (cs : CS) (t : Nat) (k : CloseK) : CS :=
  if cs.s.closed then
    match k with
    | .op => cs.finishOp t .ok
    | .inWrite fs => cs.setPC t (.wdone .errIo fs)
  else { cs with s := { cs.s with closed := true } }.setPC t (.cflag k)

/-- ONE atomic action of task `t` -/
def micro (cs : CS) (t : Nat) : Option CS :=
  let k := cs.task t
  match k.pc with
  | .fin => none
  | .idle =>
    match k.ops with
    | [] => some (cs.setPC t .fin)
    | .nobuf :: _ => some ({ cs with s := { cs.s with buffering := false } }.finishOp t .ok)
    | .write f :: _ =>
      match encode f with
      | none => some (cs.finishOp t .errIo)
      | some b => some (cs.submit t [b])
    | .data sid payload :: _ => some (cs.submit t ((dataFrames (payload.length + 1) sid payload).map encodeD))
    | .dataOwn payload :: _ =>
      let sid := ((k.sids.filterMap id).getLast?).getD 0
      some (cs.submit t ((dataFrames (payload.length + 1) sid payload).map encodeD))
    | .open :: _ =>
      if cs.s.closed then some ((cs.setTask t (fun k => { k with sids := k.sids ++ [none] })).finishOp t .errClosed)
      else some (cs.setPC t .openChecked)
    | .close :: _ => some (cs.enterClose t .op)
  | .openChecked =>
    let (s', sid, _) := cs.s.register
    some (({ cs with s := s' }.setTask t (fun k => { k with sids := k.sids ++ [some sid] })).submit t
      [encodeD { cmd := .syn, sid := sid, data := [] }])
  | .enter fs =>
    match cs.bufHolder with
    | none => some ({ cs with bufHolder := some t }.setPC t (.locked fs))
    | some _ => some ({ cs with bufQ := cs.bufQ ++ [t] }.setPC t (.waitBuf fs))
  | .waitBuf _ => none
  | .locked [] => some (cs.releaseBuf.finishOp t .ok)     -- unreachable: `fs` is never empty here
  | .locked (bytes :: fs) =>
    if cs.s.closed then some (cs.releaseBuf.finishOp t .errClosed)
    else if cs.s.buffering then
      let cs := { cs with s := { cs.s with buffer := cs.s.buffer ++ bytes }, log := cs.log ++ [({ owner := some t, bytes := bytes } : Unit')] }
      let cs := cs.releaseBuf
      if fs.isEmpty then some (cs.finishOp t .ok) else some (cs.setPC t (.enter fs))
    else
      let payload := cs.s.buffer ++ bytes
      let (s', ps) := { cs.s with buffer := [] }.prepare payload
      -- ghost: the frame, then whatever padding the pieces carry beyond the payload
      let pad := (flatten ps).drop payload.length
      let cs := { cs with s := s', log := cs.log ++ [({ owner := some t, bytes := bytes } : Unit')] ++ (if pad.isEmpty then [] else [({ owner := none, bytes := pad } : Unit')]) }
      some (cs.setPC t (.preWr ps (bytes :: fs)))
  | .preWr ps fs => some (cs.lockWrWrite t ps fs)
  | .waitWr _ _ => none
  | .piece [] fs => some (cs.releaseWr.setPC t (.wdone .ok fs))
  | .piece (p :: ps) fs =>
    match cs.s.transportWrite p with
    | some s' =>
      let cs := { cs with s := s' }
      if ps.isEmpty then some (cs.releaseWr.setPC t (.wdone .ok fs)) else some (cs.setPC t (.piece ps fs))
    | none =>
      -- drop(writer); handle_io_error -> close()
      some (({ cs with failed := true }.releaseWr).enterClose t (.inWrite fs))
  | .wdone r fs =>
    let cs := cs.releaseBuf
    match r, fs with
    | .ok, _ :: (g :: gs) => some (cs.setPC t (.enter (g :: gs)))
    | r, _ => some (cs.finishOp t r)
  | .cflag k => some ({ cs with s := cs.s.closeDrain }.setPC t (.cdrained k))
  | .cdrained k =>
    match cs.wrHolder with
    | none => some ({ cs with wrHolder := some t }.setPC t (.cshut k))
    | some _ => some ({ cs with wrQ := cs.wrQ ++ [t] }.setPC t (.cwait k))
  | .cwait _ => none
  | .cshut k =>
    let cs := { cs with s := { cs.s with shut := true } }.releaseWr
    match k with
    | .op => some (cs.finishOp t .ok)
    | .inWrite fs => some (cs.setPC t (.wdone .errIo fs))

/-! ### the executable scheduler of the correspondence check -/

/-- the states in which a controlled task is parked at a hook point -/
def PC.parked : PC → Bool
  | .idle | .openChecked | .enter _ | .locked _ | .preWr _ _ | .piece _ _ | .wdone _ _ | .cflag _ | .cdrained _ => true
  | _ => false

def PC.blocked : PC → Bool
  | .waitBuf _ | .waitWr _ _ | .cwait _ => true
  | _ => false

/-- can this task run without the harness releasing it? -/
def Task.free (k : Task) : Bool :=
  match k.pc, k.ops with
  | .fin, _ => false
  | .idle, [] => true          -- nothing left to do: the task ends
  | pc, _ => !pc.blocked && !(k.controlled && pc.parked)

/-- run task `t` until it is parked, blocked or finished -/
def runFree : Nat → CS → Nat → CS
  | 0, cs, _ => cs
  | fuel + 1, cs, t =>
    if (cs.task t).free then
      match micro cs t with
      | some cs' => runFree fuel cs' t
      | none => cs
    else cs

/-- let every task that can run on its own run (lowest id first), until none can -/
def settle : Nat → CS → CS
  | 0, cs => cs
  | fuel + 1, cs =>
    match (List.range cs.n).find? (fun t => (cs.task t).free) with
    | some t => settle fuel (runFree 64 cs t)
    | none => cs

/-- the harness releases controlled task `t` from its hook point: one action, then everything
that can run does -/
def stepTask (cs : CS) (t : Nat) : Option CS :=
  let k := cs.task t
  if k.controlled && k.pc.parked then
    match micro cs t with
    | some cs' => some (settle 64 cs')
    | none => none
  else none

end AnyTLS
