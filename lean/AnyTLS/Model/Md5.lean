/-
MD5 (RFC 1321), executable; used only by the driver to predict the `padding-md5` setting the
real code announces (the theorems treat the digest as an opaque function of the raw scheme).
-/
import AnyTLS.Model.Bytes

namespace AnyTLS.Md5

def sTable : Array UInt32 := #[
  7, 12, 17, 22, 7, 12, 17, 22, 7, 12, 17, 22, 7, 12, 17, 22,
  5, 9, 14, 20, 5, 9, 14, 20, 5, 9, 14, 20, 5, 9, 14, 20,
  4, 11, 16, 23, 4, 11, 16, 23, 4, 11, 16, 23, 4, 11, 16, 23,
  6, 10, 15, 21, 6, 10, 15, 21, 6, 10, 15, 21, 6, 10, 15, 21]

def kTable : Array UInt32 := #[
  0xd76aa478, 0xe8c7b756, 0x242070db, 0xc1bdceee, 0xf57c0faf, 0x4787c62a, 0xa8304613, 0xfd469501,
  0x698098d8, 0x8b44f7af, 0xffff5bb1, 0x895cd7be, 0x6b901122, 0xfd987193, 0xa679438e, 0x49b40821,
  0xf61e2562, 0xc040b340, 0x265e5a51, 0xe9b6c7aa, 0xd62f105d, 0x02441453, 0xd8a1e681, 0xe7d3fbc8,
  0x21e1cde6, 0xc33707d6, 0xf4d50d87, 0x455a14ed, 0xa9e3e905, 0xfcefa3f8, 0x676f02d9, 0x8d2a4c8a,
  0xfffa3942, 0x8771f681, 0x6d9d6122, 0xfde5380c, 0xa4beea44, 0x4bdecfa9, 0xf6bb4b60, 0xbebfbc70,
  0x289b7ec6, 0xeaa127fa, 0xd4ef3085, 0x04881d05, 0xd9d4d039, 0xe6db99e5, 0x1fa27cf8, 0xc4ac5665,
  0xf4292244, 0x432aff97, 0xab9423a7, 0xfc93a039, 0x655b59c3, 0x8f0ccc92, 0xffeff47d, 0x85845dd1,
  0x6fa87e4f, 0xfe2ce6e0, 0xa3014314, 0x4e0811a1, 0xf7537e82, 0xbd3af235, 0x2ad7d2bb, 0xeb86d391]

def rotl (x : UInt32) (c : UInt32) : UInt32 := (x <<< c) ||| (x >>> (32 - c))

def le32 (b : Array UInt8) (i : Nat) : UInt32 :=
  (b.getD i 0).toUInt32 ||| ((b.getD (i + 1) 0).toUInt32 <<< 8) ||| ((b.getD (i + 2) 0).toUInt32 <<< 16)
    ||| ((b.getD (i + 3) 0).toUInt32 <<< 24)

def pad (msg : Bytes) : Array UInt8 :=
  let len := msg.length
  let zeros := (56 + 64 - (len + 1) % 64) % 64
  let bitlen := len * 8
  let lenBytes := (List.range 8).map (fun i => UInt8.ofNat ((bitlen / (256 ^ i)) % 256))
  (msg ++ [0x80] ++ List.replicate zeros 0 ++ lenBytes).toArray

def block (st : UInt32 × UInt32 × UInt32 × UInt32) (m : Array UInt8) (off : Nat) : UInt32 × UInt32 × UInt32 × UInt32 :=
  let (a0, b0, c0, d0) := st
  let step := fun (s : UInt32 × UInt32 × UInt32 × UInt32) (i : Nat) =>
    let (a, b, c, d) := s
    let (f, g) :=
      if i < 16 then ((b &&& c) ||| ((~~~ b) &&& d), i)
      else if i < 32 then ((d &&& b) ||| ((~~~ d) &&& c), (5 * i + 1) % 16)
      else if i < 48 then (b ^^^ c ^^^ d, (3 * i + 5) % 16)
      else (c ^^^ (b ||| (~~~ d)), (7 * i) % 16)
    let f2 := f + a + kTable.getD i 0 + le32 m (off + 4 * g)
    (d, b + rotl f2 (sTable.getD i 0), b, c)
  let (a, b, c, d) := (List.range 64).foldl step (a0, b0, c0, d0)
  (a0 + a, b0 + b, c0 + c, d0 + d)

def digest (msg : Bytes) : Bytes :=
  let m := pad msg
  let nblocks := m.size / 64
  let (a, b, c, d) := (List.range nblocks).foldl (fun st i => block st m (64 * i))
    (0x67452301, 0xefcdab89, 0x98badcfe, 0x10325476)
  let le := fun (x : UInt32) => [x.toUInt8, (x >>> 8).toUInt8, (x >>> 16).toUInt8, (x >>> 24).toUInt8]
  le a ++ le b ++ le c ++ le d

def hexDigit (n : Nat) : Char := if n < 10 then Char.ofNat (48 + n) else Char.ofNat (87 + n)

/-- lowercase hex digest (`format!("{:x}", md5::compute(..))`) -/
def hex (msg : Bytes) : String :=
  String.ofList ((digest msg).foldr (fun x acc => hexDigit (x.toNat / 16) :: hexDigit (x.toNat % 16) :: acc) [])

end AnyTLS.Md5
