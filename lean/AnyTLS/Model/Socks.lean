/-
M8 — SOCKS5 front-end (src/client/socks5.rs): `authenticate`, `read_connection_request`,
`handle_socks5_connection` as functions of the bytes the local client has sent so far.
-/
import AnyTLS.Model.Dest

namespace AnyTLS

inductive Greet where
  /-- a `read_exact` is waiting for more bytes -/
  | needMore
  /-- the connection ends; `reply` was written first (possibly nothing) -/
  | close (reply : Bytes)
  /-- "no authentication" selected (`05 00` written), `consumed` bytes used -/
  | ok (consumed : Nat)
  deriving Repr, DecidableEq, Inhabited

/-- `authenticate` -/
def socksGreeting (inp : Bytes) : Greet :=
  match inp with
  | ver :: nm :: rest =>
    if ver != 5 then .close []
    else if nm == 0 then .close []
    else if rest.length < nm.toNat then .needMore
    else if (rest.take nm.toNat).contains 0 then .ok (2 + nm.toNat) else .close [5, 0xFF]
  | _ => .needMore

structure SReq where
  cmd : UInt8
  dest : Dest
  deriving Repr, DecidableEq, Inhabited

inductive ReqOut where
  | needMore
  | close
  | ok (r : SReq) (consumed : Nat)
  deriving Repr, DecidableEq, Inhabited

/-- `read_connection_request` -/
def socksRequest (inp : Bytes) : ReqOut :=
  match inp with
  | ver :: cmd :: _rsv :: atyp :: rest =>
    if ver != 5 then .close
    else if atyp == 1 then
      if rest.length < 6 then .needMore
      else .ok { cmd := cmd, dest := .v4 (rest.take 4) (portOf (rest.drop 4)) } 10
    else if atyp == 4 then
      if rest.length < 18 then .needMore
      else .ok { cmd := cmd, dest := .v6 (rest.take 16) (portOf (rest.drop 16)) } 22
    else if atyp == 3 then
      match rest with
      | l :: rest2 =>
        if l == 0 then .close
        else if rest2.length < l.toNat then .needMore
        else if !validUtf8 (rest2.take l.toNat) then .close
        else if rest2.length < l.toNat + 2 then .needMore
        else .ok { cmd := cmd, dest := .domain (rest2.take l.toNat) (portOf (rest2.drop l.toNat)) } (7 + l.toNat)
      | [] => .needMore
    else .close
  | _ => .needMore

/-- `send_connection_reply` -/
def socksReply (code : UInt8) : Bytes := [5, code, 0, 1, 0, 0, 0, 0, 0, 0]

inductive ConnOut where
  /-- the connection ended without a tunnel; `replies` were written -/
  | closed (replies : Bytes)
  /-- the tunnel to `dest` exists, `replies` were written, `early` are the client bytes after the request -/
  | tunnelled (replies : Bytes) (dest : Dest) (early : Bytes)
  /-- the tunnel to `dest` could not be opened -/
  | failed (replies : Bytes) (dest : Dest)
  deriving Repr, DecidableEq, Inhabited

/-- `handle_socks5_connection` on the complete client byte stream (end of stream after it);
`openOk` is the outcome of `create_proxy_stream` for the requested destination -/
def socksConn (inp : Bytes) (openOk : Bool) : ConnOut :=
  match socksGreeting inp with
  | .needMore => .closed []
  | .close reply => .closed reply
  | .ok n =>
    match socksRequest (inp.drop n) with
    | .needMore => .closed [5, 0]
    | .close => .closed [5, 0]
    | .ok r m =>
      if r.cmd != 1 then .closed ([5, 0] ++ socksReply 7)
      else if openOk then .tunnelled ([5, 0] ++ socksReply 0) r.dest (inp.drop (n + m))
      else .failed ([5, 0] ++ socksReply 1) r.dest

/-- wire image of a request -/
def renderReq (r : SReq) : Bytes :=
  match r.dest with
  | .v4 a p => [5, r.cmd, 0, 1] ++ a ++ be16 p
  | .v6 a p => [5, r.cmd, 0, 4] ++ a ++ be16 p
  | .domain d p => [5, r.cmd, 0, 3, UInt8.ofNat d.length] ++ d ++ be16 p

end AnyTLS
