/-
One client process: the process-wide default scheme (src/padding/factory.rs `DEFAULT_FACTORY`,
`update_default`, `effective`) and the client sessions created from it
(src/client/client.rs `create_new_session`).
-/
import AnyTLS.Model.Session

namespace AnyTLS

/-- the process-wide default after a session handled some frames: the last scheme it stored -/
def absorbScheme (global : Scheme) (pushed : List Scheme) (before : Nat) : Scheme :=
  match (pushed.drop before).getLast? with
  | some sch => sch
  | none => global

structure Proc where
  /-- the scheme a session created now is given (`PaddingFactory::effective`) -/
  global : Scheme
  sessions : List Sess := []
  deriving Inhabited

/-- `create_new_session` after the dial: a client session with the effective scheme, started -/
def Proc.newSession (p : Proc) (seed : UInt64) : Proc :=
  let s0 := Sess.initClient p.global (Md5.hex p.global.raw) seed
  { p with sessions := p.sessions ++ [(s0.startClient).1] }

/-- session `i` handles one received frame; what it stored becomes the process-wide default -/
def Proc.frame (p : Proc) (i : Nat) (f : Frame) : Proc :=
  match p.sessions[i]? with
  | none => p
  | some s =>
    let s' := (s.handleFrame f).1
    { global := absorbScheme p.global s'.pushed s.pushed.length,
      sessions := p.sessions.mapIdx (fun j t => if j == i then s' else t) }

/-- the scheme a source denotes for a client configured with `cfg` in process `p` (`PaddingFactory::effective`
returns the process-wide default once a server has pushed one; `p.global` is that value, and equals `cfg` before) -/
def Proc.pick (p : Proc) (cfg : Scheme) : Gen.SchemeSource → Scheme
  | .configured => cfg
  | .effective => p.global

/-- `create_new_session`: the scheme that shapes the preamble and the scheme the session is created with, as the
code selects them (`Gen.preambleSchemeFrom`, `Gen.sessionSchemeFrom`, regenerated from client.rs) -/
def Proc.dialSchemes (p : Proc) (cfg : Scheme) : Scheme × Scheme :=
  (p.pick cfg Gen.preambleSchemeFrom, p.pick cfg Gen.sessionSchemeFrom)

end AnyTLS
