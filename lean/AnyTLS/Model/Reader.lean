/-
M2 — chunk-queue reader (src/session/stream_reader.rs over the unbounded per-stream channel).
-/
import AnyTLS.Model.Bytes

namespace AnyTLS

structure RState where
  /-- chunks sent into the channel and not yet received -/
  queue : List Bytes := []
  /-- the sending half still exists (entry in the session's receive table) -/
  chanOpen : Bool := true
  /-- `reader_buffer` -/
  rbuf : Bytes := []
  /-- `eof` flag of the reader -/
  eof : Bool := false
  deriving Repr, DecidableEq, Inhabited

inductive ReadOut where
  /-- `Ok(n)` with the `n` bytes copied out (n may be 0 only when the caller's buffer is empty) -/
  | data (b : Bytes)
  /-- `Ok(0)` because the channel is closed and drained -/
  | eof
  /-- the `recv().await` would not complete -/
  | block
  deriving Repr, DecidableEq, Inhabited

/-- step 3 of `StreamReader::read`: receive from the channel, skipping empty chunks -/
def recvLoop (n : Nat) : List Bytes → Bool → ReadOut × List Bytes × Bytes × Bool
  -- returns (out, queue', rbuf', eof')
  | [], chanOpen => if chanOpen then (.block, [], [], false) else (.eof, [], [], true)
  | c :: q, chanOpen =>
    if c.isEmpty && n ≠ 0 then recvLoop n q chanOpen
    else (.data (c.take n), q, c.drop n, false)

/-- `StreamReader::read(&mut buf)` with `buf.len() = n` -/
def RState.read (r : RState) (n : Nat) : ReadOut × RState :=
  if r.eof && r.rbuf.isEmpty then (.eof, r)
  else if !r.rbuf.isEmpty then (.data (r.rbuf.take n), { r with rbuf := r.rbuf.drop n })
  else
    match recvLoop n r.queue r.chanOpen with
    | (.block, _, _, _) => (.block, r)   -- nothing consumed (`recv` is cancel-safe)
    | (out, q, rb, e) => (out, { r with queue := q, rbuf := rb, eof := r.eof || e })

/-- the session pushes a chunk into the channel -/
def RState.push (r : RState) (c : Bytes) : RState :=
  if r.chanOpen then { r with queue := r.queue ++ [c] } else r

/-- the sending half is dropped (FIN, session close, entry replaced) -/
def RState.closeChan (r : RState) : RState := { r with chanOpen := false }

/-- everything the reader can still deliver -/
def RState.pending (r : RState) : Bytes := r.rbuf ++ flatten r.queue

/-- `read_exact` with explicit fuel (each successful `read` of a non-empty buffer returns ≥ 1
byte, so `n` rounds suffice): `some bytes` / `none` = UnexpectedEof / block reported as `.block` -/
inductive ExactOut where
  | ok (b : Bytes)
  | eofErr (got : Bytes)
  | block (got : Bytes)
  deriving Repr, DecidableEq, Inhabited

def RState.readExactFuel : Nat → RState → Nat → Bytes → ExactOut × RState
  | _, r, 0, acc => (.ok acc, r)
  | 0, r, _ + 1, acc => (.block acc, r)
  | fuel + 1, r, need + 1, acc =>
    match r.read (need + 1) with
    | (.data b, r') =>
      if b.isEmpty then (.eofErr acc, r')   -- `n == 0` ⇒ UnexpectedEof (cannot happen after the empty-chunk repair)
      else RState.readExactFuel fuel r' (need + 1 - b.length) (acc ++ b)
    | (.eof, r') => (.eofErr acc, r')
    | (.block, r') => (.block acc, r')

def RState.readExact (r : RState) (n : Nat) : ExactOut × RState :=
  RState.readExactFuel n r n []

end AnyTLS
