/-
M4 — padding scheme (src/util/string_map.rs, src/padding/factory.rs) and packet shaping
(src/session/session.rs `write_with_padding`, src/util/auth.rs `send_authentication`).
ASCII level: the Rust code works on `str` after `from_utf8_lossy`; the model works on bytes
and agrees with it on inputs whose bytes are all < 0x80 (non-ASCII input is covered by the
harness only).
-/
import AnyTLS.Model.Frame

namespace AnyTLS

/-- `char::is_whitespace` restricted to ASCII -/
def isWs (b : UInt8) : Bool := b == 9 || b == 10 || b == 11 || b == 12 || b == 13 || b == 32

def trimLeft : Bytes → Bytes
  | [] => []
  | b :: bs => if isWs b then trimLeft bs else b :: bs

def trim (b : Bytes) : Bytes := (trimLeft (trimLeft b).reverse).reverse

/-- `str::split(sep)` -/
def splitOnByte (sep : UInt8) : Bytes → List Bytes
  | [] => [[]]
  | b :: bs =>
    match splitOnByte sep bs with
    | [] => [[]]   -- unreachable
    | cur :: rest => if b == sep then [] :: cur :: rest else (b :: cur) :: rest

/-- `str::split_once(sep)`: cut at the first occurrence -/
def splitOnce (sep : UInt8) : Bytes → Option (Bytes × Bytes)
  | [] => none
  | b :: bs =>
    if b == sep then some ([], bs)
    else match splitOnce sep bs with
      | none => none
      | some (l, r) => some (b :: l, r)

def isDigit (b : UInt8) : Bool := 48 ≤ b && b ≤ 57

def digitsVal : Bytes → Nat → Option Nat
  | [], acc => some acc
  | b :: bs, acc => if isDigit b then digitsVal bs (acc * 10 + (b.toNat - 48)) else none

/-- Rust `str::parse::<uN>()`: optional `+`, at least one digit, digits only, no overflow -/
def parseUnsigned (max : Nat) (b : Bytes) : Option Nat :=
  let ds := match b with
    | 43 :: rest => rest
    | _ => b
  if ds.isEmpty then none
  else match digitsVal ds 0 with
    | some v => if v ≤ max then some v else none
    | none => none

/-- Rust `str::parse::<i64>()`: optional `+`/`-`, at least one digit, no overflow -/
def parseI64 (b : Bytes) : Option Int :=
  match b with
  | 45 :: ds =>
    if ds.isEmpty then none
    else match digitsVal ds 0 with
      | some v => if v ≤ 9223372036854775808 then some (-(v : Int)) else none
      | none => none
  | _ =>
    let ds := match b with
      | 43 :: rest => rest
      | _ => b
    if ds.isEmpty then none
    else match digitsVal ds 0 with
      | some v => if v ≤ 9223372036854775807 then some (v : Int) else none
      | none => none

/-- `StringMap::from_bytes`: lines, first `=` splits, both sides trimmed; insertion order kept
(lookup takes the last, like `HashMap::insert` overwriting) -/
def parseMap (data : Bytes) : List (Bytes × Bytes) :=
  (splitOnByte 10 data).filterMap fun line =>
    match splitOnce 61 line with
    | some (k, v) => some (trim k, trim v)
    | none => none

def mapGet (m : List (Bytes × Bytes)) (k : Bytes) : Option Bytes :=
  match m.reverse.find? (fun kv => kv.1 == k) with
  | some kv => some kv.2
  | none => none

def asciiBytes (s : String) : Bytes := s.toList.map (fun c => UInt8.ofNat c.toNat)

/-- decimal digits of a number (`u32::to_string`) -/
def decimal (n : Nat) : Bytes := asciiBytes (toString n)

structure Scheme where
  raw : Bytes
  map : List (Bytes × Bytes)
  stop : Nat
  deriving Repr, DecidableEq, Inhabited

/-- `PaddingFactory::new` -/
def Scheme.parse (raw : Bytes) : Option Scheme :=
  let m := parseMap raw
  match mapGet m (asciiBytes "stop") with
  | none => none
  | some v =>
    match parseUnsigned 4294967295 v with
    | none => none
    | some stop => some { raw := raw, map := m, stop := stop }

/-- one entry of a scheme line after parsing -/
inductive Spec where
  | check
  /-- `lo ≤ hi`, both in 1..65535 -/
  | range (lo hi : Nat)
  deriving Repr, DecidableEq, Inhabited

/-- one part of a line (`generate_record_payload_sizes`, body of the `for part in parts` loop) -/
def parsePart (part : Bytes) : Option Spec :=
  let p := trim part
  if p == [99] then some .check            -- "c"
  else match splitOnce 45 p with           -- first '-'
    | none => none
    | some (a, b) =>
      let lo := (parseI64 (trim a)).getD 0
      let hi := (parseI64 (trim b)).getD 0
      if lo ≤ 0 || hi ≤ 0 then none
      else if lo > 65535 || hi > 65535 then none
      else some (.range (min lo hi).toNat (max lo hi).toNat)

/-- the entries of line `pkt` (empty when the line is missing) -/
def Scheme.specs (s : Scheme) (pkt : Nat) : List Spec :=
  match mapGet s.map (decimal pkt) with
  | none => []
  | some line => (splitOnByte 44 line).filterMap parsePart

/-- a resolved record size -/
inductive Sz where
  | check
  | size (n : Nat)
  deriving Repr, DecidableEq, Inhabited

/-- resolve the random ranges with raw random numbers `rs` (one consumed per range with
`lo < hi`; `lo + r % (hi - lo + 1)` is always inside the range; an exhausted list gives `lo`) -/
def resolve : List Spec → List Nat → List Sz
  | [], _ => []
  | .check :: rest, rs => .check :: resolve rest rs
  | .range lo hi :: rest, rs =>
    if lo == hi then .size lo :: resolve rest rs
    else match rs with
      | [] => .size lo :: resolve rest []
      | r :: rs' => .size (lo + r % (hi - lo + 1)) :: resolve rest rs'

/-- number of random draws a line needs -/
def drawsNeeded : List Spec → Nat
  | [] => 0
  | .check :: rest => drawsNeeded rest
  | .range lo hi :: rest => (if lo == hi then 0 else 1) + drawsNeeded rest

/-- a padding frame: Waste, stream 0, `n` zero bytes -/
def wasteFrame (n : Nat) : Bytes := header 0 0 n ++ zeros n

/-- the `for size in pkt_sizes` loop of `write_with_padding` plus the final
"write any remaining payload": the list of `write_all` calls -/
def shape : List Sz → Bytes → List Bytes
  | [], buf => if buf.isEmpty then [] else [buf]
  | .check :: rest, buf => if buf.isEmpty then [] else shape rest buf
  | .size n :: rest, buf =>
    if buf.length > n then buf.take n :: shape rest (buf.drop n)
    else if buf.length > 0 then
      let pad := n - (buf.length + 7)
      (if pad > 0 then buf ++ wasteFrame pad else buf) :: shape rest []
    else wasteFrame n :: shape rest []

/-- `write_with_padding` for packet number `pkt`: the `write_all` calls -/
def writePacket (sendPadding : Bool) (s : Scheme) (pkt : Nat) (rs : List Nat) (payload : Bytes) : List Bytes :=
  if !sendPadding then [payload]
  else if pkt ≥ s.stop then [payload]
  else
    let sizes := resolve (s.specs pkt) rs
    if sizes.isEmpty then [payload] else shape sizes payload

/-- `send_authentication`: the three `write_all` calls -/
def preamble (hash : Bytes) (s : Scheme) (rs : List Nat) : List Bytes :=
  let p0 := match resolve (s.specs 0) rs with
    | .size n :: _ => n
    | _ => 0            -- no line 0, or a check mark first (`-1 < 0 ⇒ 0`)
  [hash, be16 p0] ++ (if p0 > 0 then [zeros p0] else [])

end AnyTLS
