/-
M10 — certificate hot-reload (src/util/cert_reloader.rs `reload`, `get_acceptor`,
`get_cert_info`, `get_reload_count`) over an abstract validator: what a file completely and
correctly contains is an input (`none` = missing, truncated, garbled, empty), as is which
certificates are expired; rustls / rustls-pemfile / x509-parser do the real validation.
-/
import AnyTLS.Gen

namespace AnyTLS

/-- what one read of a file yields: the pair id whose certificate (resp. key) it completely
contains, or `none` -/
abbrev FileRead := Option Nat

structure CertSt where
  /-- pair served to new connections (`tls_acceptor`) -/
  active : Nat
  /-- pair described by `get_cert_info` -/
  info : Nat
  /-- `get_reload_count` -/
  count : Nat := 0
  checkExpiry : Bool := true
  /-- pairs captured by connections accepted so far (`get_acceptor()` snapshots), oldest first -/
  accepted : List Nat := []
  deriving Repr, DecidableEq, Inhabited

/-- `reload()`: the certificate file and the key file are each read once (possibly from different
disk states, if the disk changes in between); everything is derived from those two reads -/
def CertSt.reload (st : CertSt) (expired : Nat → Bool) (cert key : FileRead) : CertSt × Bool :=
  match cert, key with
  | some c, some k =>
    if c == k && !(st.checkExpiry && expired c) then
      ({ st with active := c, info := c, count := st.count + 1 }, true)
    else (st, false)
  | _, _ => (st, false)

/-- a new connection takes a snapshot of the acceptor -/
def CertSt.accept (st : CertSt) : CertSt := { st with accepted := st.accepted ++ [st.active] }

/-- the *pinned* reload: the certificate file is read a second time for the reported information -/
def CertSt.reloadPinned (st : CertSt) (expired : Nat → Bool) (cert key cert2 : FileRead) : CertSt × Bool :=
  match cert, key, cert2 with
  | some c, some k, some c2 =>
    if c == k && !(st.checkExpiry && expired c2) then
      ({ st with active := c, info := c2, count := st.count + 1 }, true)
    else (st, false)
  | _, _, _ => (st, false)

/-- `Server::listen` on the reloader's acceptor cell: `snap` is the acceptor the loop holds for the connection it
is waiting for (meaningful only when the cell is read before `accept()` or before the loop) -/
structure Listener where
  st : CertSt
  snap : Nat
  deriving Repr, DecidableEq

/-- a connection arrives and is accepted; which pair it is handshaken with depends on where the loop reads the cell -/
def Listener.conn (k : Gen.AcceptorRead) (l : Listener) : Listener :=
  match k with
  | .afterAccept => { l with st := l.st.accept }
  | .beforeAccept => { st := { l.st with accepted := l.st.accepted ++ [l.snap] }, snap := l.st.active }
  | .outsideLoop => { l with st := { l.st with accepted := l.st.accepted ++ [l.snap] } }

def Listener.reload (l : Listener) (expired : Nat → Bool) (cert key : FileRead) : Listener :=
  { l with st := (l.st.reload expired cert key).1 }

/-- a listener that has just started (or just served a connection) holds the current pair -/
def Listener.start (st : CertSt) : Listener := { st := st, snap := st.active }

end AnyTLS
