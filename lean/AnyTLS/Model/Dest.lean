/-
M6/M7 — destination headers and UDP-over-TCP framing over the chunk-queue reader (M2).
  client side : src/client/client.rs `create_proxy_stream` (address encoding),
                src/client/udp_client.rs `encode_initial_request`, `encode_udp_packet`, `read_udp_packet`
  server side : src/server/handler.rs `read_socks_addr`,
                src/server/udp_proxy.rs `read_initial_request`, `read_udp_packet`, `encode_udp_packet_simple`
  resolver    : src/util/dns_cache.rs `resolve_host_with_cache` (the lookup answer is an input)
String classification (`"1.2.3.4".parse::<Ipv4Addr>()`, `to_string`) is std; the model starts
from the classified value.
-/
import AnyTLS.Model.Reader

namespace AnyTLS

inductive Dest where
  | v4 (a : Bytes) (port : Nat)
  | v6 (a : Bytes) (port : Nat)
  | domain (d : Bytes) (port : Nat)
  deriving Repr, DecidableEq, Inhabited

/-- Unicode "well-formed UTF-8 byte sequences" (what `String::from_utf8` accepts) -/
def validUtf8 : Bytes → Bool
  | [] => true
  | b0 :: rest =>
    if b0 < 0x80 then validUtf8 rest
    else if 0xC2 ≤ b0 && b0 ≤ 0xDF then
      match rest with
      | b1 :: r => (0x80 ≤ b1 && b1 ≤ 0xBF) && validUtf8 r
      | _ => false
    else if 0xE0 ≤ b0 && b0 ≤ 0xEF then
      match rest with
      | b1 :: b2 :: r =>
        let lo : UInt8 := if b0 == 0xE0 then 0xA0 else 0x80
        let hi : UInt8 := if b0 == 0xED then 0x9F else 0xBF
        (lo ≤ b1 && b1 ≤ hi) && (0x80 ≤ b2 && b2 ≤ 0xBF) && validUtf8 r
      | _ => false
    else if 0xF0 ≤ b0 && b0 ≤ 0xF4 then
      match rest with
      | b1 :: b2 :: b3 :: r =>
        let lo : UInt8 := if b0 == 0xF0 then 0x90 else 0x80
        let hi : UInt8 := if b0 == 0xF4 then 0x8F else 0xBF
        (lo ≤ b1 && b1 ≤ hi) && (0x80 ≤ b2 && b2 ≤ 0xBF) && (0x80 ≤ b3 && b3 ≤ 0xBF) && validUtf8 r
      | _ => false
    else false

def Dest.WF : Dest → Prop
  | .v4 a p => a.length = 4 ∧ p < 65536
  | .v6 a p => a.length = 16 ∧ p < 65536
  | .domain d p => 1 ≤ d.length ∧ d.length ≤ 255 ∧ validUtf8 d = true ∧ p < 65536

/-- client.rs: the destination bytes written as the first data of a stream; a domain longer
than 255 bytes is refused and nothing is sent -/
def encodeDest : Dest → Option Bytes
  | .v4 a p => some (1 :: a ++ be16 p)
  | .v6 a p => some (4 :: a ++ be16 p)
  | .domain d p => if d.length > 255 then none else some (3 :: UInt8.ofNat d.length :: d ++ be16 p)

inductive DecOut (α : Type) where
  | ok (v : α)
  | err
  | block
  deriving Repr, Inhabited

/-- `read_exact` lifted to the three outcomes -/
def rdX (r : RState) (n : Nat) : DecOut Bytes × RState :=
  match r.readExact n with
  | (.ok b, r') => (.ok b, r')
  | (.eofErr _, r') => (.err, r')
  | (.block _, r') => (.block, r')

def portOf (b : Bytes) : Nat := rd16 (b.getD 0 0) (b.getD 1 0)

/-- the tail shared by every address form: fixed-length address, then the port -/
def readAddrPort (r : RState) (alen : Nat) (mk : Bytes → Nat → Dest) : DecOut Dest × RState :=
  match rdX r alen with
  | (.ok a, r1) =>
    match rdX r1 2 with
    | (.ok p, r2) => (.ok (mk a (portOf p)), r2)
    | (.err, r2) => (.err, r2)
    | (.block, r2) => (.block, r2)
  | (.err, r1) => (.err, r1)
  | (.block, r1) => (.block, r1)

def readDomainPort (r : RState) : DecOut Dest × RState :=
  match rdX r 1 with
  | (.ok l, r1) =>
    let len := (l.getD 0 0).toNat
    if len == 0 then (.err, r1)
    else match rdX r1 len with
      | (.ok d, r2) =>
        if !validUtf8 d then (.err, r2)
        else match rdX r2 2 with
          | (.ok p, r3) => (.ok (.domain d (portOf p)), r3)
          | (.err, r3) => (.err, r3)
          | (.block, r3) => (.block, r3)
      | (.err, r2) => (.err, r2)
      | (.block, r2) => (.block, r2)
  | (.err, r1) => (.err, r1)
  | (.block, r1) => (.block, r1)

def readByAtyp (r : RState) (atyp : UInt8) : DecOut Dest × RState :=
  if atyp == 1 then readAddrPort r 4 .v4
  else if atyp == 4 then readAddrPort r 16 .v6
  else if atyp == 3 then readDomainPort r
  else (.err, r)

/-- handler.rs `read_socks_addr`: the address type comes from a plain `read` of one byte
(an end of stream there leaves the byte at 0 = unsupported type) -/
def decodeDest (r : RState) : DecOut Dest × RState :=
  match r.read 1 with
  | (.block, r1) => (.block, r1)
  | (.eof, r1) => (.err, r1)
  | (.data b, r1) => readByAtyp r1 (b.getD 0 0)

/-- udp_client.rs `encode_initial_request` (a `SocketAddr`: IPv4 or IPv6 only) -/
def encodeUdpRequest : Dest → Option Bytes
  | .v4 a p => some (1 :: 1 :: a ++ be16 p)
  | .v6 a p => some (1 :: 4 :: a ++ be16 p)
  | .domain _ _ => none

/-- udp_proxy.rs `read_initial_request` up to (not including) name resolution -/
def decodeUdpRequest (r : RState) : DecOut Dest × RState :=
  match rdX r 1 with
  | (.ok c, r1) =>
    if c.getD 0 0 != 1 then (.err, r1)
    else match rdX r1 1 with
      | (.ok t, r2) => readByAtyp r2 (t.getD 0 0)
      | (.err, r2) => (.err, r2)
      | (.block, r2) => (.block, r2)
  | (.err, r1) => (.err, r1)
  | (.block, r1) => (.block, r1)

/-- `encode_udp_packet` / `encode_udp_packet_simple` -/
def encodeDgram (maxLen : Nat) (payload : Bytes) : Option Bytes :=
  if payload.length > maxLen then none else some (be16 payload.length ++ payload)

/-- `read_udp_packet` (both sides): a zero length prefix is the end marker (returned as the
empty datagram) -/
def readDgram (r : RState) : DecOut Bytes × RState :=
  match rdX r 2 with
  | (.ok l, r1) =>
    let len := portOf l
    if len == 0 then (.ok [], r1) else rdX r1 len
  | (.err, r1) => (.err, r1)
  | (.block, r1) => (.block, r1)

/-- read datagrams until the reader blocks, ends or fails (fuel = upper bound on rounds) -/
def readDgrams : Nat → RState → List Bytes → List Bytes × RState
  | 0, r, acc => (acc.reverse, r)
  | fuel + 1, r, acc =>
    match readDgram r with
    | (.ok d, r') => if d.isEmpty then (acc.reverse, r') else readDgrams fuel r' (d :: acc)
    | (_, r') => (acc.reverse, r')

/-! ### resolver cache -/

structure DnsEntry where
  host : Bytes
  /-- addresses as stored: each with the port of the request that filled the entry -/
  addrs : List (Bytes × Nat)
  expired : Bool
  next : Nat
  deriving Repr, DecidableEq, Inhabited

abbrev DnsCache := List DnsEntry

def dnsFind (c : DnsCache) (host : Bytes) : Option DnsEntry := c.find? (·.host == host)

def dnsPut (c : DnsCache) (e : DnsEntry) : DnsCache := e :: c.filter (·.host != e.host)

/-- `resolve_host_with_cache` for a non-literal host; `lookup` is the resolver's answer that a
miss would obtain (already sorted).  Returns the cache and `(ip, port)`. -/
def dnsResolve (c : DnsCache) (host : Bytes) (port : Nat) (lookup : List Bytes) : DnsCache × Option (Bytes × Nat) :=
  match dnsFind c host with
  | some e =>
    if !e.expired && !e.addrs.isEmpty then
      let a := e.addrs.getD (e.next % e.addrs.length) default
      (dnsPut c { e with next := e.next + 1 }, some (a.1, port))
    else resolveMiss c host port lookup
  | none => resolveMiss c host port lookup
where
  resolveMiss (c : DnsCache) (host : Bytes) (port : Nat) (lookup : List Bytes) : DnsCache × Option (Bytes × Nat) :=
    match lookup with
    | [] => (c, none)
    | ip :: _ => (dnsPut c { host := host, addrs := lookup.map (fun i => (i, port)), expired := false, next := 1 },
                  some (ip, port))

/-- the *pinned* hit branch: the stored socket address is returned as it is -/
def resolvePinnedHit (e : DnsEntry) (_port : Nat) : Bytes × Nat :=
  e.addrs.getD (e.next % e.addrs.length) default

end AnyTLS
