/-
SHA-256 (FIPS 180-4), executable; used only by the driver to predict the digest the real code
derives from a configured password (the theorems of C06 treat the digest as an opaque 32-byte
string: what matters there is that the comparison is with exactly that string).
-/
import AnyTLS.Model.Bytes

namespace AnyTLS.Sha256

def kTable : Array UInt32 := #[
  0x428a2f98, 0x71374491, 0xb5c0fbcf, 0xe9b5dba5, 0x3956c25b, 0x59f111f1, 0x923f82a4, 0xab1c5ed5,
  0xd807aa98, 0x12835b01, 0x243185be, 0x550c7dc3, 0x72be5d74, 0x80deb1fe, 0x9bdc06a7, 0xc19bf174,
  0xe49b69c1, 0xefbe4786, 0x0fc19dc6, 0x240ca1cc, 0x2de92c6f, 0x4a7484aa, 0x5cb0a9dc, 0x76f988da,
  0x983e5152, 0xa831c66d, 0xb00327c8, 0xbf597fc7, 0xc6e00bf3, 0xd5a79147, 0x06ca6351, 0x14292967,
  0x27b70a85, 0x2e1b2138, 0x4d2c6dfc, 0x53380d13, 0x650a7354, 0x766a0abb, 0x81c2c92e, 0x92722c85,
  0xa2bfe8a1, 0xa81a664b, 0xc24b8b70, 0xc76c51a3, 0xd192e819, 0xd6990624, 0xf40e3585, 0x106aa070,
  0x19a4c116, 0x1e376c08, 0x2748774c, 0x34b0bcb5, 0x391c0cb3, 0x4ed8aa4a, 0x5b9cca4f, 0x682e6ff3,
  0x748f82ee, 0x78a5636f, 0x84c87814, 0x8cc70208, 0x90befffa, 0xa4506ceb, 0xbef9a3f7, 0xc67178f2]

def rotr (x : UInt32) (c : UInt32) : UInt32 := (x >>> c) ||| (x <<< (32 - c))

def be32 (b : Array UInt8) (i : Nat) : UInt32 :=
  ((b.getD i 0).toUInt32 <<< 24) ||| ((b.getD (i + 1) 0).toUInt32 <<< 16) ||| ((b.getD (i + 2) 0).toUInt32 <<< 8)
    ||| (b.getD (i + 3) 0).toUInt32

def pad (msg : Bytes) : Array UInt8 :=
  let len := msg.length
  let zeros := (56 + 64 - (len + 1) % 64) % 64
  let bitlen := len * 8
  let lenBytes := (List.range 8).map (fun i => UInt8.ofNat ((bitlen / (256 ^ (7 - i))) % 256))
  (msg ++ [0x80] ++ List.replicate zeros 0 ++ lenBytes).toArray

/-- message schedule of one block -/
def schedule (m : Array UInt8) (off : Nat) : Array UInt32 :=
  let w0 : Array UInt32 := (Array.range 16).map (fun i => be32 m (off + 4 * i))
  (List.range 48).foldl (fun (w : Array UInt32) j =>
    let i := j + 16
    let w15 := w.getD (i - 15) 0
    let w2 := w.getD (i - 2) 0
    let s0 := rotr w15 7 ^^^ rotr w15 18 ^^^ (w15 >>> 3)
    let s1 := rotr w2 17 ^^^ rotr w2 19 ^^^ (w2 >>> 10)
    w.push (w.getD (i - 16) 0 + s0 + w.getD (i - 7) 0 + s1)) w0

structure St where
  a : UInt32
  b : UInt32
  c : UInt32
  d : UInt32
  e : UInt32
  f : UInt32
  g : UInt32
  h : UInt32

def St.add (x y : St) : St :=
  ⟨x.a + y.a, x.b + y.b, x.c + y.c, x.d + y.d, x.e + y.e, x.f + y.f, x.g + y.g, x.h + y.h⟩

def block (st : St) (m : Array UInt8) (off : Nat) : St :=
  let w := schedule m off
  let r := (List.range 64).foldl (fun (s : St) i =>
    let s1 := rotr s.e 6 ^^^ rotr s.e 11 ^^^ rotr s.e 25
    let ch := (s.e &&& s.f) ^^^ ((~~~ s.e) &&& s.g)
    let t1 := s.h + s1 + ch + kTable.getD i 0 + w.getD i 0
    let s0 := rotr s.a 2 ^^^ rotr s.a 13 ^^^ rotr s.a 22
    let mj := (s.a &&& s.b) ^^^ (s.a &&& s.c) ^^^ (s.b &&& s.c)
    let t2 := s0 + mj
    ⟨t1 + t2, s.a, s.b, s.c, s.d + t1, s.e, s.f, s.g⟩) st
  st.add r

def init : St :=
  ⟨0x6a09e667, 0xbb67ae85, 0x3c6ef372, 0xa54ff53a, 0x510e527f, 0x9b05688c, 0x1f83d9ab, 0x5be0cd19⟩

def be (x : UInt32) : Bytes :=
  [(x >>> 24).toUInt8, (x >>> 16).toUInt8, (x >>> 8).toUInt8, x.toUInt8]

def digest (msg : Bytes) : Bytes :=
  let m := pad msg
  let st := (List.range (m.size / 64)).foldl (fun s i => block s m (64 * i)) init
  be st.a ++ be st.b ++ be st.c ++ be st.d ++ be st.e ++ be st.f ++ be st.g ++ be st.h

end AnyTLS.Sha256
