/-
M5 — server-side authentication (src/util/auth.rs `authenticate_client`) and what the server
connection does with the bytes that follow (src/server/server.rs `handle_connection`).
SHA-256 is opaque: `expected` is just a 32-byte string.
-/
import AnyTLS.Model.Session
import AnyTLS.Gen

namespace AnyTLS

inductive AuthOut where
  /-- a `read_exact` is still waiting for bytes -/
  | needMore
  /-- `AuthenticationFailed` after exactly 32 bytes -/
  | reject
  /-- `Ok(())` after consuming `n` bytes -/
  | accept (n : Nat)
  deriving Repr, DecidableEq, Inhabited

/-- verdict on the bytes received so far -/
def authServer (expected input : Bytes) : AuthOut :=
  if input.length < 32 then .needMore
  else if input.take 32 != expected then .reject
  else if input.length < 34 then .needMore
  else
    let n := rd16 (input.getD 32 0) (input.getD 33 0)
    if input.length < 34 + n then .needMore else .accept (34 + n)

/-- the frames the server connection acts on for the bytes received so far: none at all unless
the preamble was accepted; parsing starts right after the declared padding -/
def serverConnFrames (expected input : Bytes) : Option (List Frame) :=
  match authServer expected input with
  | .accept n => some (decodeAll (input.drop n)).1
  | _ => none

/-! ### the gate in `handle_connection`

What the connection task sees while it authenticates: bytes arrive, or — when the call sits under a timer — the
timer fires.  A dropped `authenticate_client` takes the bytes its `read_exact` calls have consumed with it (while the
verdict is `needMore` that is every byte received so far), and the retry reads "the first 32 bytes" from wherever the
stream then is.  Which shape the code has is regenerated from the source (`Gen.authGate`). -/

inductive ConnEv where
  | bytes (b : Bytes)
  | tick
  deriving DecidableEq, Repr

def bytesOf : List ConnEv → Bytes
  | [] => []
  | .bytes b :: es => b ++ bytesOf es
  | .tick :: es => bytesOf es

/-- verdict of the gate; `acc` = bytes consumed by the call in progress -/
def gateRun (k : Gen.AuthGate) (expected : Bytes) : (acc : Bytes) → List ConnEv → AuthOut
  | acc, [] => authServer expected acc
  | acc, .tick :: es =>
    match authServer expected acc with
    | .needMore => gateRun k expected (match k with | .bareOnce => acc | .timedRetry => []) es
    | v => v
  | acc, .bytes b :: es =>
    match authServer expected acc with
    | .needMore => gateRun k expected (acc ++ b) es
    | v => v

end AnyTLS
