/-
M5 — server-side authentication (src/util/auth.rs `authenticate_client`) and what the server
connection does with the bytes that follow (src/server/server.rs `handle_connection`).
SHA-256 is opaque: `expected` is just a 32-byte string.
-/
import AnyTLS.Model.Session

namespace AnyTLS

inductive AuthOut where
  /-- a `read_exact` is still waiting for bytes -/
  | needMore
  /-- `AuthenticationFailed` after exactly 32 bytes -/
  | reject
  /-- `Ok(())` after consuming `n` bytes -/
  | accept (n : Nat)
  deriving Repr, DecidableEq, Inhabited

/-- verdict on the bytes received so far -/
def authServer (expected input : Bytes) : AuthOut :=
  if input.length < 32 then .needMore
  else if input.take 32 != expected then .reject
  else if input.length < 34 then .needMore
  else
    let n := rd16 (input.getD 32 0) (input.getD 33 0)
    if input.length < 34 + n then .needMore else .accept (34 + n)

/-- the frames the server connection acts on for the bytes received so far: none at all unless
the preamble was accepted; parsing starts right after the declared padding -/
def serverConnFrames (expected input : Bytes) : Option (List Frame) :=
  match authServer expected input with
  | .accept n => some (decodeAll (input.drop n)).1
  | _ => none

end AnyTLS
