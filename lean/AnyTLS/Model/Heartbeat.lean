/-
M12 — the liveness monitor of a client session (src/session/session.rs: the heartbeat task in
`start_client` and the HeartResponse arm), after the repair: a request that stays unanswered for
`T` closes the session.  Time is virtual milliseconds; one `instant` processes, in this order,
the tick (every `I` ms from 0: send a request, remember its send time if none is pending), the
responses arriving at that instant (any response clears the pending mark), and the deadline of
the pending request.
`r k` is the network+peer delay of the answer to request k (`none` = never answered).
-/
import AnyTLS.Gen

namespace AnyTLS

structure HB where
  /-- `pending_since`: send time of the oldest request not answered yet -/
  pending : Option Nat := none
  closedAt : Option Nat := none
  deriving Repr, DecidableEq, Inhabited

/-- does a response arrive at instant `t`?  (request k is sent at k·I) -/
def arrivesAt (I : Nat) (r : Nat → Option Nat) (t : Nat) : Bool :=
  (List.range (t / I + 1)).any (fun k => r k == some (t - k * I))

def instant (I T : Nat) (r : Nat → Option Nat) (st : HB) (t : Nat) : HB :=
  match st.closedAt with
  | some _ => st
  | none =>
    -- tick
    let p1 := if t % I == 0 then (match st.pending with | none => some t | some s => some s) else st.pending
    -- responses
    let p2 := if arrivesAt I r t then none else p1
    -- deadline of the pending request
    match p2 with
    | some s => if s + T ≤ t then { pending := p2, closedAt := some t } else { pending := p2, closedAt := none }
    | none => { pending := none, closedAt := none }

/-- state after the instants 0 .. t-1 -/
def hbRun (I T : Nat) (r : Nat → Option Nat) : Nat → HB
  | 0 => {}
  | t + 1 => instant I T r (hbRun I T r t) t

/-- the *pinned* rule, for the refutations: at every tick the age of the last response is
compared with the timeout -/
def pinnedClosesAtTick (I T : Nat) (lastResponse : Nat) (k : Nat) : Bool := k * I - lastResponse > T

end AnyTLS
