/-
M11 — client session pool (src/client/session_pool.rs) and `Client::create_stream` /
`create_new_session` (src/client/client.rs) as far as pooling is concerned.
Time is virtual milliseconds.
-/
import AnyTLS.Gen

namespace AnyTLS

structure PEntry where
  seq : Nat
  /-- index of the session -/
  sess : Nat
  /-- `idle_since` -/
  since : Nat
  deriving Repr, DecidableEq, Inhabited

structure PoolCfg where
  interval : Nat
  timeout : Nat
  minIdle : Nat
  deriving Repr, DecidableEq, Inhabited

structure Pool where
  cfg : PoolCfg
  /-- idle map, ascending `seq` -/
  idle : List PEntry := []
  /-- closed flag of every session ever created (index = session) -/
  closed : List Bool := []
  /-- number of open streams of every session (what "in use" means; the code does not track it) -/
  streams : List Nat := []
  deriving Repr, Inhabited

def Pool.isClosed (p : Pool) (i : Nat) : Bool := p.closed.getD i true

def insertSorted (e : PEntry) : List PEntry → List PEntry
  | [] => [e]
  | x :: xs => if e.seq < x.seq then e :: x :: xs else if e.seq == x.seq then e :: xs else x :: insertSorted e xs

/-- `add_idle_session`: a closed session is not added; the key is the session's `seq` -/
def Pool.addIdle (p : Pool) (seq sess now : Nat) : Pool :=
  if p.isClosed sess then p else { p with idle := insertSorted { seq := seq, sess := sess, since := now } p.idle }

/-- `get_idle_session`: newest first, closed entries are dropped on the way -/
def getIdleGo (closed : Nat → Bool) : List PEntry → Option Nat × List PEntry
  -- works on the list reversed (newest first); returns the remaining list still reversed
  | [] => (none, [])
  | e :: rest => if closed e.sess then getIdleGo closed rest else (some e.sess, rest)

def Pool.getIdle (p : Pool) : Option Nat × Pool :=
  let (r, rest) := getIdleGo p.isClosed p.idle.reverse
  (r, { p with idle := rest.reverse })

/-- the reaper loop: ascending `seq`; returns (kept entries, sessions to close) -/
def cleanupGo (cfg : PoolCfg) (closed : Nat → Bool) (now : Nat) : List PEntry → Nat → List PEntry × List Nat
  | [], _ => ([], [])
  | e :: rest, active =>
    if closed e.sess then
      let (k, c) := cleanupGo cfg closed now rest active
      (k, c)                                   -- removed; `close()` on a closed session is a no-op
    else if now - e.since < cfg.timeout then
      let (k, c) := cleanupGo cfg closed now rest (active + 1)
      (e :: k, c)
    else if active < cfg.minIdle then
      let (k, c) := cleanupGo cfg closed now rest (active + 1)
      (e :: k, c)
    else
      let (k, c) := cleanupGo cfg closed now rest active
      (k, e.sess :: c)

def closeAll (closed : List Bool) (is : List Nat) : List Bool :=
  closed.mapIdx (fun i b => b || is.contains i)

/-- `cleanup_expired` / one tick of the periodic task -/
def Pool.cleanup (p : Pool) (now : Nat) : Pool :=
  let (kept, toClose) := cleanupGo p.cfg p.isClosed now p.idle 0
  { p with idle := kept, closed := closeAll p.closed toClose }

/-- a session dies for an external reason -/
def Pool.die (p : Pool) (i : Nat) : Pool := { p with closed := closeAll p.closed [i] }

/-- `Client::create_stream`: an idle session if there is one, otherwise a new session, which is
inserted into the idle map at creation and handed out at the same time.  Returns the session
used and whether a new TLS connection was dialled. -/
def Pool.request (p : Pool) (now : Nat) : Nat × Bool × Pool :=
  match p.getIdle with
  | (some i, p') => (i, false, { p' with streams := p'.streams.mapIdx (fun j n => if j == i then n + 1 else n) })
  | (none, p') =>
    let i := p'.closed.length
    let p'' := { p' with closed := p'.closed ++ [false], streams := p'.streams ++ [1] }
    (i, true, p''.addIdle i i now)

/-- a stream of session `i` ends (nothing in the code reacts to it: the session is neither
returned to the idle map nor closed) -/
def Pool.streamDone (p : Pool) (i : Nat) : Pool :=
  { p with streams := p.streams.mapIdx (fun j n => if j == i then n - 1 else n) }

/-- `n` sequential, non-overlapping requests: sessions used and number of dials -/
def sequentialRun : Nat → Pool → Nat → List Nat × Nat
  | 0, _, _ => ([], 0)
  | n + 1, p, now =>
    let (i, dialled, p') := p.request now
    let (rest, d) := sequentialRun n (p'.streamDone i) (now + 20)
    (i :: rest, d + (if dialled then 1 else 0))

end AnyTLS
