/-
M9 — HTTP proxy front-end (src/client/http_proxy.rs): `find_header_end`, `read_http_header`,
`parse_http_request`, `determine_target`, `split_host_port`, `build_forward_request` and the
order of effects of `handle_http_proxy_connection`.

Strings are lists of Unicode scalar values (`List Char`); the Rust code works on `&str` after
`String::from_utf8`, and every operation it uses (`split`, `split_whitespace`, `trim`, `find`,
`rfind`, `starts_with`, `strip_prefix`, `trim_matches`, `to_ascii_lowercase`, `parse::<u16>`)
is defined on scalar values, so byte offsets never matter: a slice `&s[..i]` / `&s[i..]` at a
match position is the list before / from the match.
-/
import AnyTLS.Model.Dest
import AnyTLS.Gen

namespace AnyTLS.Http
open AnyTLS

abbrev Str := List Char

def crlf : Str := ['\r', '\n']

/-! ### UTF-8 (`String::from_utf8`, `as_bytes`) -/

/-- decode a byte string already known to be well-formed UTF-8 -/
def decodeChars : Bytes → Str
  | [] => []
  | b0 :: rest =>
    if b0 < 0x80 then Char.ofNat b0.toNat :: decodeChars rest
    else if b0 < 0xE0 then
      match rest with
      | b1 :: r => Char.ofNat ((b0.toNat % 32) * 64 + b1.toNat % 64) :: decodeChars r
      | _ => []
    else if b0 < 0xF0 then
      match rest with
      | b1 :: b2 :: r => Char.ofNat ((b0.toNat % 16) * 4096 + (b1.toNat % 64) * 64 + b2.toNat % 64) :: decodeChars r
      | _ => []
    else
      match rest with
      | b1 :: b2 :: b3 :: r =>
        Char.ofNat ((b0.toNat % 8) * 262144 + (b1.toNat % 64) * 4096 + (b2.toNat % 64) * 64 + b3.toNat % 64) :: decodeChars r
      | _ => []

def utf8Decode (b : Bytes) : Option Str := if validUtf8 b then some (decodeChars b) else none

def utf8Encode (s : Str) : Bytes := s.flatMap String.utf8EncodeChar

/-! ### `str` primitives -/

/-- `char::is_whitespace` (Unicode White_Space) -/
def isWs (c : Char) : Bool :=
  let n := c.toNat
  (9 ≤ n && n ≤ 13) || n == 32 || n == 0x85 || n == 0xA0 || n == 0x1680 ||
  (0x2000 ≤ n && n ≤ 0x200A) || n == 0x2028 || n == 0x2029 || n == 0x202F || n == 0x205F || n == 0x3000

/-- `char::to_ascii_lowercase` -/
def lower (c : Char) : Char := if 65 ≤ c.toNat ∧ c.toNat ≤ 90 then Char.ofNat (c.toNat + 32) else c

/-- `str::split("\r\n")` -/
def consHead (c : Char) : List Str → List Str
  | [] => [[c]]
  | l :: ls => (c :: l) :: ls

def splitCRLF : Str → List Str
  | [] => [[]]
  | [c] => [[c]]
  | c :: d :: rest =>
    if c = '\r' ∧ d = '\n' then [] :: splitCRLF rest
    else consHead c (splitCRLF (d :: rest))

/-- `str::split_whitespace` with the token being collected in `cur` (reversed) -/
def splitWsGo : Str → Str → List Str
  | [], cur => if cur.isEmpty then [] else [cur.reverse]
  | c :: rest, cur =>
    if isWs c then (if cur.isEmpty then splitWsGo rest [] else cur.reverse :: splitWsGo rest [])
    else splitWsGo rest (c :: cur)

def splitWs (s : Str) : List Str := splitWsGo s []

/-- `str::trim` -/
def trim (s : Str) : Str := ((s.dropWhile isWs).reverse.dropWhile isWs).reverse

/-- `str::trim_matches(c)` -/
def trimMatches (c : Char) (s : Str) : Str := ((s.dropWhile (· == c)).reverse.dropWhile (· == c)).reverse

/-- `str::starts_with(&str)` -/
def startsWith (p s : Str) : Bool := p.isPrefixOf s

/-- `str::find(&str)`: position of the first occurrence -/
def findSub (pat : Str) : Str → Option Nat
  | [] => if pat.isEmpty then some 0 else none
  | c :: rest => if pat.isPrefixOf (c :: rest) then some 0 else (findSub pat rest).map (· + 1)

/-- `value.rfind(c)` followed by the two slices `&value[..idx]`, `&value[idx + 1..]` -/
def splitLast (c : Char) : Str → Option (Str × Str)
  | [] => none
  | x :: xs =>
    match splitLast c xs with
    | some (a, b) => some (x :: a, b)
    | none => if x = c then some ([], xs) else none

def isDigit (c : Char) : Bool := 48 ≤ c.toNat && c.toNat ≤ 57

def decVal (s : Str) : Nat := s.foldl (fun v c => v * 10 + (c.toNat - 48)) 0

/-- `str::parse::<u16>()`: an optional `+`, then one or more ASCII digits, value at most 65535 -/
def stripPlus : Str → Str
  | '+' :: r => r
  | s => s

def parseU16 (s : Str) : Option Nat :=
  let ds := stripPlus s
  if ds.isEmpty then none
  else if ds.all isDigit then (if decVal ds ≤ 65535 then some (decVal ds) else none)
  else none

def digitChar (n : Nat) : Char := Char.ofNat (48 + n)

def digitsF : Nat → Nat → Str
  | 0, _ => []
  | f + 1, n => if n < 10 then [digitChar n] else digitsF f (n / 10) ++ [digitChar (n % 10)]

/-- `format!("{}", n)` for an unsigned integer -/
def digits (n : Nat) : Str := digitsF (n + 1) n

def eqIgnoreCase (a b : Str) : Bool := a.map lower == b.map lower

/-! ### `split_host_port` -/

def stripBrackets (s : Str) : Str := trimMatches ']' (trimMatches '[' (trim s))

def splitHostPort (value : Str) (dflt : Nat) : Str × Nat :=
  match splitLast ':' value with
  | some (hostPart, portPart) =>
    if hostPart.contains ':' && !value.contains ']' then (value, dflt)
    else
      match parseU16 portPart with
      | some p => (stripBrackets hostPart, p)
      | none => (stripBrackets value, dflt)
  | none => (stripBrackets value, dflt)

/-! ### `determine_target` -/

/-- a header line whose field name is `Host`, in any letter case -/
def isHostLine (l : Str) : Bool := (l.take 5).map lower == "host:".toList

/-- the authority of an absolute URI ends at the first `/` or `?` -/
def authorityEnd (c : Char) : Bool := c == '/' || c == '?'

inductive Err where
  | requestLine | hostMissing | utf8 | tooLarge | closedEarly
  deriving Repr, DecidableEq, Inhabited

def determineTarget (method target : Str) (headers : List Str) : Except Err (Str × Nat × Str × Bool) :=
  if eqIgnoreCase method "CONNECT".toList then
    let hp := splitHostPort target 443
    .ok (hp.1, hp.2, [], true)
  else
    let hostHeader : Option Str := (headers.find? isHostLine).map (fun l => trim (l.drop 5))
    let https := startsWith "https://".toList target
    let abs := startsWith "http://".toList target || https
    let hp : Str × Str :=
      if abs then
        let ws := match findSub "://".toList target with
          | some pos => target.drop (pos + 3)
          | none => target
        let host := ws.takeWhile (fun c => !authorityEnd c)
        let rest := ws.dropWhile (fun c => !authorityEnd c)
        (host, if rest.isEmpty then ['/'] else rest)
      else (hostHeader.getD [], target)
    let port := if abs && https then 443 else 80
    if hp.1.isEmpty then .error .hostMissing
    else
      let r := splitHostPort hp.1 port
      let path := if startsWith ['/'] hp.2 || startsWith ['*'] hp.2 then hp.2 else '/' :: hp.2
      .ok (r.1, r.2, path, false)

/-! ### `parse_http_request`, `build_forward_request` -/

structure Parsed where
  method : Str
  version : Str
  host : Str
  port : Nat
  path : Str
  isConnect : Bool
  headers : List Str
  body : Bytes
  deriving Repr, DecidableEq, Inhabited

def parseRequest (header : Str) (body : Bytes) : Except Err Parsed :=
  let lines := splitCRLF header
  let parts := splitWs (lines.headD [])
  match parts with
  | method :: target :: more =>
    let version := more.headD "HTTP/1.1".toList
    let headerLines := lines.tail.filter (fun l => !l.isEmpty)
    match determineTarget method target headerLines with
    | .ok (host, port, path, isConnect) =>
      .ok { method, version, host, port, path, isConnect, headers := headerLines, body }
    | .error e => .error e
  | _ => .error .requestLine

/-- the value written into the `Host` header: IPv6 literals in brackets, the port unless 80/443 -/
def hostValue (host : Str) (port : Nat) : Str :=
  let h := if host.contains ':' then '[' :: host ++ [']'] else host
  if port = 80 ∨ port = 443 then h else h ++ ':' :: digits port

def hostLineOut (q : Parsed) : Str := "Host: ".toList ++ hostValue q.host q.port ++ crlf

def buildForward (q : Parsed) : Str :=
  q.method ++ ' ' :: (if q.path.isEmpty then ['/'] else q.path) ++ ' ' :: q.version ++ crlf
  ++ (q.headers.flatMap (fun h => if h.isEmpty then [] else if isHostLine h then hostLineOut q else h ++ crlf))
  ++ (if q.headers.any (fun h => !h.isEmpty && isHostLine h) then [] else hostLineOut q)
  ++ crlf

/-! ### `find_header_end`, `read_http_header` -/

def terminator : Bytes := [13, 10, 13, 10]

/-- `find_header_end`: index just after the first `\r\n\r\n` -/
def findHeaderEnd : Bytes → Option Nat
  | [] => none
  | b :: rest => if terminator.isPrefixOf (b :: rest) then some 4 else (findHeaderEnd rest).map (· + 1)

inductive HdrOut where
  /-- header block, the bytes read with it, the reads still to come -/
  | ok (header : Bytes) (remaining : Bytes) (later : List Bytes)
  | err (e : Err)
  deriving Repr, DecidableEq, Inhabited

/-- `read_http_header`: one element of `chunks` is what one `read` returned (non-empty); the list
running out is end of stream.  `buf` is what has been accumulated. -/
def readHeader (maxHeader : Nat) : Bytes → List Bytes → HdrOut
  | _, [] => .err .closedEarly
  | buf, c :: rest =>
    let buf' := buf ++ c
    match findHeaderEnd buf' with
    | some e => if e ≤ maxHeader then .ok (buf'.take e) (buf'.drop e) rest else .err .tooLarge
    | none => if buf'.length > maxHeader then .err .tooLarge else readHeader maxHeader buf' rest

/-! ### `handle_http_proxy_connection`: the order of effects -/

inductive Ev where
  /-- `create_proxy_stream((host, port))` -/
  | openTunnel (host : Str) (port : Nat)
  /-- bytes written to the local client -/
  | reply (b : Bytes)
  /-- one `write_data_frame` on the tunnel -/
  | send (b : Bytes)
  deriving Repr, DecidableEq, Inhabited

def reply200 : Bytes := utf8Encode "HTTP/1.1 200 Connection Established\r\n\r\n".toList
def reply502 : Bytes := utf8Encode "HTTP/1.1 502 Bad Gateway\r\nContent-Length: 0\r\nConnection: close\r\n\r\n".toList

/-- effects up to the start of the relay loops, for a header block and the bytes read with it;
the flag says whether the relay loops are reached -/
def connAfterHeader (header remaining : Bytes) (tunnelOk : Bool) : List Ev × Bool :=
  match utf8Decode header with
  | none => ([], false)
  | some h =>
    match parseRequest h remaining with
    | .error _ => ([], false)
    | .ok q =>
      if !tunnelOk then ([.openTunnel q.host q.port, .reply reply502], false)
      else
        ([.openTunnel q.host q.port]
          ++ (if q.isConnect then [.reply reply200] else [.send (utf8Encode (buildForward q))])
          ++ (if q.body.isEmpty then [] else [.send q.body]), true)

/-- the client byte stream arrives as `chunks`; reads after the header block are relayed one
`send` per read -/
def conn (maxHeader : Nat) (chunks : List Bytes) (tunnelOk : Bool) : List Ev :=
  match readHeader maxHeader [] chunks with
  | .err _ => []
  | .ok header remaining later =>
    let r := connAfterHeader header remaining tunnelOk
    if r.2 then r.1 ++ later.map Ev.send else r.1

end AnyTLS.Http
