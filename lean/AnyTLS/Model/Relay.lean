/-
M14 — the relay loops (server: stream ↔ target socket; client front-ends: application socket ↔ stream).

Every one of them has the shape

    loop { n = source.read(&mut buf)   -- 0 = end of input
           sink.<write primitive>(<slice of buf>) }

The model keeps the buffer (so that "which slice is forwarded" can be said), takes the source's reads and the
sink's behaviour as inputs (an adversarial list of per-call capacities: call i accepts at most `caps[i]` bytes;
0 or an exhausted list = the sink fails), and returns what the sink received.  Which write primitive and which
slice each loop of the code uses is regenerated from the source on every run (`Gen.relaySites`).
-/
import AnyTLS.Model.Bytes
import AnyTLS.Gen

namespace AnyTLS.Relay

open Gen (WriteKind SliceKind RelaySite EndKind)

/-- `write_all` against per-call capacities: the bytes the sink took and, if everything was taken, the capacities
    left; `none` = the sink failed on the way (capacity 0 = `WriteZero`, an exhausted list = the connection broke) -/
def writeAll : Bytes → List Nat → Bytes × Option (List Nat)
  | [], caps => ([], some caps)
  | _ :: _, [] => ([], none)
  | _ :: _, 0 :: _ => ([], none)
  | b :: bs, (c + 1) :: caps =>
    let r := writeAll ((b :: bs).drop (c + 1)) caps
    ((b :: bs).take (c + 1) ++ r.1, r.2)

/-- one call of `write` whose result is not acted on: the loop goes on as if everything had been taken -/
def writeOnce : Bytes → List Nat → Bytes × Option (List Nat)
  | [], caps => ([], some caps)
  | _ :: _, [] => ([], none)
  | _ :: _, 0 :: caps => ([], some caps)
  | b :: bs, (c + 1) :: caps => ((b :: bs).take (c + 1), some caps)

def handOver : WriteKind → Bytes → List Nat → Bytes × Option (List Nat)
  | .writeAll, b, caps => writeAll b caps
  | .writeOnce, b, caps => writeOnce b caps
  | .channel, b, caps => (b, some caps)
  | .frame, b, caps => (b, some caps)

/-- buffer after a read that returned `chunk` (the rest keeps what earlier reads left there) -/
def fill (buf chunk : Bytes) : Bytes := chunk ++ buf.drop chunk.length

def slice : SliceKind → Bytes → Nat → Bytes
  | .prefixN, buf, n => buf.take n
  | .whole, buf, _ => buf
  | .other, _, _ => []

structure Out where
  delivered : Bytes
  /-- the loop ended because the source reported end of input (not because the sink failed) -/
  sourceDone : Bool
  deriving DecidableEq, Repr

/-- the loop: `reads` are the source's successive non-empty reads, then end of input -/
def run (w : WriteKind) (sl : SliceKind) : (buf : Bytes) → (reads : List Bytes) → (caps : List Nat) → Out
  | _, [], _ => { delivered := [], sourceDone := true }
  | buf, chunk :: rest, caps =>
    match handOver w (slice sl (fill buf chunk) chunk.length) caps with
    | (d, none) => { delivered := d, sourceDone := false }
    | (d, some caps') =>
      let o := run w sl (fill buf chunk) rest caps'
      { o with delivered := d ++ o.delivered }

/-- what the sink's peer has observed once the task of the loop is over: the bytes, and whether an end of stream follows
    them (the code after the loop runs however the loop ended; nothing is written after it) -/
structure SinkView where
  bytes : Bytes
  ended : Bool
  deriving DecidableEq, Repr

def finish (e : EndKind) (o : Out) : SinkView := { bytes := o.delivered, ended := e != .nothing }

/-- a site whose loop is lossless by construction -/
def sound (s : RelaySite) : Bool := s.write != .writeOnce && s.slice == .prefixN

end AnyTLS.Relay
