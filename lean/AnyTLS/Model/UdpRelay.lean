/-
M15 — the four datagram relay loops of UDP-over-TCP (src/server/udp_proxy.rs, src/client/udp_client.rs) and the
address family of the server relay's socket.

    udp → stream:  loop { (len, _) = udp.recv_from(&mut buf); packet = encode(<slice of buf>); stream.send_data(packet) }
    stream → udp:  loop { payload = read_udp_packet(reader); if payload.is_empty() { break }; udp.send_to(<slice of payload>, peer) }

The first keeps the receive buffer explicit (so that "which slice is encoded" can be said).  The second is event driven:
the tunnel stream delivers chunks at its own pace and — when the datagram read sits under a timer — the timer may fire
between any two chunks, which drops the read in progress together with the bytes it has consumed.  Which slice and which
kind of read each loop of the code uses is regenerated from the source on every run (`Gen.udpSites`), and so is the rule
by which the relay socket's local address is chosen (`Gen.udpBind`).
-/
import AnyTLS.Model.Relay
import AnyTLS.Model.Dest

namespace AnyTLS.UdpRelay

open Gen (SliceKind ReadWrap UdpSite UdpDir BindRule)

/-- udp → stream: the chunks submitted to the tunnel stream for the datagrams `dgrams` received in this order
    (`?` on an encoder error ends the loop) -/
def toStream (mx : Nat) (sl : SliceKind) : (buf : Bytes) → (dgrams : List Bytes) → List Bytes
  | _, [] => []
  | buf, d :: rest =>
    match encodeDgram mx (Relay.slice sl (Relay.fill buf d) d.length) with
    | none => []
    | some c => c :: toStream mx sl (Relay.fill buf d) rest

/-- what the stream → udp loop sees: a chunk of the tunnel stream arrives, or the timer around its read fires -/
inductive Ev where
  | chunk (b : Bytes)
  | tick
  deriving DecidableEq, Repr

def chunksOf : List Ev → List Bytes
  | [] => []
  | .chunk b :: es => b :: chunksOf es
  | .tick :: es => chunksOf es

structure Cut where
  /-- the complete datagrams at the front -/
  out : List Bytes
  /-- the bytes of the datagram in progress (consumed by the pending `read_udp_packet`) -/
  rest : Bytes
  /-- a zero length prefix (end marker) or an oversize prefix ended the loop -/
  ended : Bool
  deriving DecidableEq, Repr

/-- repeated `read_udp_packet` on the bytes available (fuel ≥ their number) -/
def cut (mx : Nat) : Nat → Bytes → Cut
  | 0, b => ⟨[], b, false⟩
  | f + 1, h :: l :: t =>
    if rd16 h l == 0 then ⟨[], t, true⟩
    else if rd16 h l > mx then ⟨[], t, true⟩
    else if t.length < rd16 h l then ⟨[], h :: l :: t, false⟩
    else
      let c := cut mx f (t.drop (rd16 h l))
      ⟨t.take (rd16 h l) :: c.out, c.rest, c.ended⟩
  | _ + 1, b => ⟨[], b, false⟩

/-- the part of a decoded payload handed to `send_to` -/
def sendSlice : SliceKind → Bytes → Bytes
  | .whole, p => p
  | _, _ => []

/-- stream → udp: the datagrams sent on the socket; `acc` = bytes consumed by the read in progress -/
def toUdp (mx : Nat) (sl : SliceKind) (w : ReadWrap) : (acc : Bytes) → List Ev → List Bytes
  | _, [] => []
  | acc, .tick :: es => toUdp mx sl w (match w with | .bare => acc | .timed => []) es
  | acc, .chunk b :: es =>
    let c := cut mx (acc ++ b).length (acc ++ b)
    if c.ended then c.out.map (sendSlice sl)
    else c.out.map (sendSlice sl) ++ toUdp mx sl w c.rest es

/-- a loop that keeps datagram boundaries and contents by construction -/
def sound (s : UdpSite) : Bool :=
  match s.dir with
  | .toStream => s.slice == .prefixN
  | .toUdp => s.slice == .whole && s.wrap == .bare

/-- wire image of a sequence of datagrams -/
def encodeAll : List Bytes → Bytes
  | [] => []
  | d :: ds => be16 d.length ++ d ++ encodeAll ds

inductive Family where
  | v4
  | v6
  deriving DecidableEq, Repr

/-- address family of the socket the server relay binds for a target of family `f` -/
def bindFamily : BindRule → Family → Family
  | .anyV4, _ => .v4
  | .anyV6, _ => .v6
  | .familyOfTarget, f => f

/-! ### which streams are UDP-over-TCP streams (`TcpProxyHandler::handle_stream`) -/

/-- the name the protocol reserves -/
def reservedName : List Char := ['u', 'd', 'p', '-', 'o', 'v', 'e', 'r', '-', 't', 'c', 'p', '.', 'a', 'r', 'p', 'a']

def hasInfix (pat : List Char) : List Char → Bool
  | [] => pat.isEmpty
  | c :: cs => pat.isPrefixOf (c :: cs) || hasInfix pat cs

/-- does the server hand a stream whose destination host is `name` to the UDP relay (instead of dialling it)? -/
def isUdpName : Gen.MagicRule → List Char → Bool
  | .contains, name => hasInfix reservedName name
  | .reservedSuffix, name => name == reservedName || ('.' :: reservedName).isSuffixOf name

/-! ### the client side of an association: where replies go (`last_peer`) -/

/-- what the client's two loops see, in order: a datagram from a local application (by source address), or a reply
    decoded from the tunnel stream -/
inductive CEv where
  | fromApp (addr : Nat) (d : Bytes)
  | reply (d : Bytes)
  deriving DecidableEq, Repr

/-- the datagrams sent on the local socket, each with its destination; `last` = `last_peer` -/
def clientReplies : (last : Option Nat) → List CEv → List (Nat × Bytes)
  | _, [] => []
  | _, .fromApp a _ :: es => clientReplies (some a) es
  | none, .reply _ :: es => clientReplies none es            -- no peer known yet: dropped
  | some a, .reply d :: es => (a, d) :: clientReplies (some a) es

def repliesOf : List CEv → List Bytes
  | [] => []
  | .fromApp _ _ :: es => repliesOf es
  | .reply d :: es => d :: repliesOf es

/-- does a call on the relay's socket fail because an *earlier* datagram met a closed port?  (The OS rule, assumed: a
    connected UDP socket reports the pending ICMP error on its next call, an unconnected one never does.) -/
def staleError (connected icmpPending : Bool) : Bool := connected && icmpPending

/-- both loops return on any socket error, which ends the association: does it outlive a datagram that met a closed port? -/
def survivesUnreachable (connected : Bool) : Bool := !staleError connected true

end AnyTLS.UdpRelay
