/-
M-open — `Client::create_proxy_stream` (src/client/client.rs) on one shared session:
open the stream, send the destination, wait for the server's verdict for at most
`Gen.synackTimeoutSecs` seconds.  Time is virtual milliseconds.
-/
import AnyTLS.Model.Session
import AnyTLS.Model.Dest

namespace AnyTLS
open Gen

/-- how a request ended -/
inductive OpenRes where
  | ok
  | serverError (msg : String)
  | sessionError
  | closedByPeer
  | timeout
  deriving Repr, DecidableEq, Inhabited

structure Req where
  /-- handle of the stream object -/
  h : Nat
  /-- instant at which the 30 s wait ends -/
  deadline : Nat
  done : Option (OpenRes × Nat) := none
  deriving Repr, Inhabited

structure OpenSt where
  s : Sess
  now : Nat := 0
  reqs : List Req := []
  deriving Inhabited

def timeoutMs : Nat := Gen.synackTimeoutSecs * 1000

/-- the verdict carried by a resolved pending-open slot -/
def verdictOf : SynSt → Option OpenRes
  | .pending => none
  | .ok => some .ok
  | .err msg =>
    if msg == "Protocol error: Session closed" then some .sessionError
    else if msg == "Protocol error: Protocol error: stream closed by peer" then some .closedByPeer
    else some (.serverError msg)

/-- requests whose timer has fired by `now` while nothing had resolved them -/
def fireTimeouts (st : OpenSt) : OpenSt :=
  { st with reqs := st.reqs.map fun r =>
      match r.done with
      | some _ => r
      | none => if r.deadline < st.now then { r with done := some (.timeout, r.deadline) } else r }

/-- requests whose slot has been resolved by what the session just did -/
def collect (st : OpenSt) : OpenSt :=
  { st with reqs := st.reqs.map fun r =>
      match r.done with
      | some _ => r
      | none =>
        match (st.s.objs[r.h]?).bind (fun o => verdictOf o.synack) with
        | some v => { r with done := some (v, st.now) }
        | none => r }

/-- `create_proxy_stream` up to the wait: `open_stream`, `disable_buffering`, destination -/
def OpenSt.start (st : OpenSt) (dest : Bytes) : OpenSt :=
  match st.s.openStream with
  | (s1, .ok, some h) =>
    let sid := (s1.objs.getD h default).sid
    let (s2, _) := { s1 with buffering := false }.writeData sid dest
    collect { st with s := s2, reqs := st.reqs ++ [{ h := h, deadline := st.now + timeoutMs }] }
  | (s1, _, _) => { st with s := s1 }

/-- the session receives bytes at the current instant -/
def OpenSt.feed (st : OpenSt) (bytes : Bytes) : OpenSt :=
  let st := fireTimeouts st
  collect { st with s := st.s.feedBytes bytes }

def OpenSt.sessionEnd (st : OpenSt) (owner : Bool) : OpenSt :=
  let st := fireTimeouts st
  collect { st with s := if owner then st.s.close else st.s.feedEnd }

def OpenSt.advance (st : OpenSt) (ms : Nat) : OpenSt := fireTimeouts { st with now := st.now + ms }

/-- the outcome of request `i` as far as it is known at the current instant -/
def OpenSt.outcome (st : OpenSt) (i : Nat) : Option (OpenRes × Nat) :=
  ((fireTimeouts st).reqs[i]?).bind (·.done)

end AnyTLS
