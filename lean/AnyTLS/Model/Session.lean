/-
M3 — sequential session model (src/session/session.rs, src/session/stream.rs).
One operation of the model = one operation of the harness run to quiescence.
Stream objects live in `objs` (indexed by creation order = "handle"), because the code hands
out `Arc<Stream>`s that outlive their table entries; the two tables map stream id ↦ handle.
-/
import AnyTLS.Model.Reader
import AnyTLS.Model.Padding
import AnyTLS.Model.Md5

namespace AnyTLS
open Gen

inductive SynSt where
  | pending
  | ok
  | err (msg : String)
  deriving Repr, DecidableEq, Inhabited

structure Obj where
  sid : Nat
  rd : RState := {}
  synack : SynSt := .pending
  /-- `Stream::is_closed` (set by `close_with_error`, first-wins, and by `poll_shutdown`) -/
  closedFlag : Bool := false
  deriving Repr, DecidableEq, Inhabited

/-- result of a `write_frame` / `open_stream` / ... call -/
inductive Res where
  | ok
  | errClosed          -- AnyTlsError::SessionClosed
  | errIo              -- AnyTlsError::Io (transport write failed, or unencodable frame)
  | errProto (msg : String)
  deriving Repr, DecidableEq, Inhabited

structure Sess where
  isClient : Bool
  sendPadding : Bool
  closed : Bool := false
  nextSid : Nat
  objs : List Obj := []
  /-- `streams` table: stream id ↦ handle -/
  streams : List (Nat × Nat) := []
  /-- `stream_receive_tx` table: stream id ↦ handle -/
  recv : List (Nat × Nat) := []
  peerVersion : Nat := 0
  scheme : Scheme
  schemeMd5 : String
  pktCounter : Nat
  buffering : Bool
  buffer : Bytes := []
  /-- extra server settings (key, value) -/
  serverSettings : List (String × String) := []
  hasCallback : Bool := false
  /-- handles delivered to the new-stream callback -/
  delivered : List Nat := []
  /-- transport: number of further `write` calls that succeed (`none` = unlimited) -/
  wrBudget : Option Nat := none
  shut : Bool := false
  /-- `write` calls accepted by the transport, oldest first -/
  wire : List Bytes := []
  /-- the receive loop has returned -/
  recvDone : Bool := false
  /-- receive buffer of the loop -/
  rbuf : Bytes := []
  /-- raw random numbers for the padding draws -/
  rng : UInt64 := 0
  /-- a HeartResponse was seen (count) -/
  heartResponses : Nat := 0
  /-- schemes this session stored into the process-wide default (`update_default`), oldest first -/
  pushed : List Scheme := []
  deriving Repr, Inhabited

def splitmix (s : UInt64) : UInt64 × UInt64 :=
  let s' := s + 0x9E3779B97F4A7C15
  let z := s'
  let z := (z ^^^ (z >>> 30)) * 0xBF58476D1CE4E5B9
  let z := (z ^^^ (z >>> 27)) * 0x94D049BB133111EB
  (z ^^^ (z >>> 31), s')

def drawN : Nat → UInt64 → List Nat × UInt64
  | 0, s => ([], s)
  | n + 1, s =>
    let (r, s') := splitmix s
    let (rs, s'') := drawN n s'
    (r.toNat :: rs, s'')

def tblGet (t : List (Nat × Nat)) (k : Nat) : Option Nat := (t.find? (·.1 == k)).map (·.2)
def tblRemove (t : List (Nat × Nat)) (k : Nat) : List (Nat × Nat) := t.filter (·.1 != k)
def tblInsert (t : List (Nat × Nat)) (k v : Nat) : List (Nat × Nat) := tblRemove t k ++ [(k, v)]

def Sess.modObj (s : Sess) (h : Nat) (f : Obj → Obj) : Sess :=
  { s with objs := s.objs.mapIdx (fun i o => if i == h then f o else o) }

def Sess.initClient (scheme : Scheme) (md5 : String) (seed : UInt64) : Sess :=
  { isClient := true, sendPadding := Gen.sendPaddingClient, nextSid := Gen.streamIdInitClient,
    scheme := scheme, schemeMd5 := md5, pktCounter := Gen.pktCounterInitClient,
    buffering := Gen.bufferingInitClient, rng := seed }

def Sess.initServer (scheme : Scheme) (md5 : String) (seed : UInt64) : Sess :=
  { isClient := false, sendPadding := Gen.sendPaddingServer, nextSid := Gen.streamIdInitServer,
    scheme := scheme, schemeMd5 := md5, pktCounter := Gen.pktCounterInitServer,
    buffering := Gen.bufferingInitServer, rng := seed }

/-- `close_with_error`: only the flag is observable (the stored error has no accessor) -/
def Obj.closeWithError (o : Obj) : Obj := { o with closedFlag := true }

/-- `notify_synack`: first send wins -/
def Obj.notifySynack (o : Obj) (r : SynSt) : Obj :=
  match o.synack with
  | .pending => { o with synack := r }
  | _ => o

/-- `Session::close` (idempotent) -/
def Sess.close (s : Sess) : Sess :=
  if s.closed then s
  else
    -- every stream in the table: close error, pending open fails, inbound channel dropped
    let inStreams := fun (i : Nat) => s.streams.any (·.2 == i)
    let objs := s.objs.mapIdx fun i o =>
      let o := if inStreams i then o.closeWithError.notifySynack (.err "Protocol error: Session closed") else o
      -- the receive-map entry is removed only for ids that are in `streams`
      if s.recv.any (fun kv => kv.2 == i && s.streams.any (·.1 == kv.1)) then { o with rd := o.rd.closeChan } else o
    { s with closed := true, objs := objs,
             recv := s.recv.filter (fun kv => !(s.streams.any (·.1 == kv.1))), streams := [],
             shut := true }

/-- feed the list of `write_all` calls to the transport; on the first failing call the session
is closed (`handle_io_error`) and the error returned -/
def Sess.transportWrites : Sess → List Bytes → Sess × Res
  | s, [] => (s, .ok)
  | s, w :: ws =>
    if s.shut then (s.close, .errIo)
    else match s.wrBudget with
      | some 0 => (s.close, .errIo)
      | some (n + 1) => Sess.transportWrites { s with wrBudget := some n, wire := s.wire ++ [w] } ws
      | none => Sess.transportWrites { s with wire := s.wire ++ [w] } ws

/-- `write_with_padding` followed by the flush -/
def Sess.writeWithPadding (s : Sess) (payload : Bytes) : Sess × Res :=
  if !s.sendPadding then s.transportWrites [payload]
  else
    let pkt := s.pktCounter + Gen.pktFetchOffset
    let s := { s with pktCounter := s.pktCounter + 1 }
    if pkt ≥ s.scheme.stop then s.transportWrites [payload]
    else
      let specs := s.scheme.specs pkt
      let (rs, rng') := drawN (drawsNeeded specs) s.rng
      let s := { s with rng := rng' }
      let sizes := resolve specs rs
      if sizes.isEmpty then s.transportWrites [payload]
      else s.transportWrites (shape sizes payload)

/-- `write_frame` -/
def Sess.writeFrame (s : Sess) (f : Frame) : Sess × Res :=
  match encode f with
  | none => (s, .errIo)
  | some bytes =>
    if s.closed then (s, .errClosed)
    else if s.buffering then ({ s with buffer := s.buffer ++ bytes }, .ok)
    else
      let payload := s.buffer ++ bytes
      { s with buffer := [] }.writeWithPadding payload

/-- `write_data_frame`: chunks larger than one frame go out as consecutive PSH frames -/
def Sess.writeDataFuel : Nat → Sess → Nat → Bytes → Sess × Res
  | 0, s, _, _ => (s, .errIo)   -- unreachable with fuel = length + 1
  | fuel + 1, s, sid, data =>
    if data.length > 65535 then
      match s.writeFrame { cmd := .push, sid := sid, data := data.take 65535 } with
      | (s', .ok) => Sess.writeDataFuel fuel s' sid (data.drop 65535)
      | (s', e) => (s', e)
    else s.writeFrame { cmd := .push, sid := sid, data := data }

def Sess.writeData (s : Sess) (sid : Nat) (data : Bytes) : Sess × Res :=
  Sess.writeDataFuel (data.length + 1) s sid data

/-- `open_stream`: returns the new handle on success -/
def Sess.openStream (s : Sess) : Sess × Res × Option Nat :=
  if s.closed then (s, .errClosed, none)
  else
    let sid := s.nextSid
    let h := s.objs.length
    let s := { s with nextSid := s.nextSid + 1, objs := s.objs ++ [({ sid := sid } : Obj)],
                      recv := tblInsert s.recv sid h, streams := tblInsert s.streams sid h }
    match s.writeFrame { cmd := .syn, sid := sid, data := [] } with
    | (s', .ok) => (s', .ok, some h)
    | (s', e) => (s', e, some h)     -- the entry stays registered; the caller gets the error

def u8OfAscii (b : Bytes) : Option Nat := parseUnsigned 255 b

def stringOfBytes (b : Bytes) : String := String.ofList (b.map (fun x => Char.ofNat x.toNat))

def settingsBytes (kvs : List (String × String)) : Bytes :=
  asciiBytes ("\n".intercalate (kvs.map fun kv => kv.1 ++ "=" ++ kv.2))

/-- replace an inbound-channel entry: the old sender (if any) is dropped -/
def Sess.dropRecvEntry (s : Sess) (sid : Nat) : Sess :=
  match tblGet s.recv sid with
  | some h => s.modObj h (fun o => { o with rd := o.rd.closeChan })
  | none => s

/-- FIN arm: the stream registered under `sid` (if any) has its pending open failed -/
def Sess.failPendingOpen (s : Sess) (sid : Nat) : Sess :=
  match tblGet s.streams sid with
  | some h => s.modObj h (fun o => o.notifySynack (.err "Protocol error: Protocol error: stream closed by peer"))
  | none => s

inductive Outcome where
  | continue
  | stop (reason : String)
  deriving Repr, DecidableEq, Inhabited

/-- Settings arm, first half: push our scheme when the announced md5 differs -/
def Sess.maybePushScheme (s : Sess) (m : List (Bytes × Bytes)) : Sess × Res :=
  match mapGet m (asciiBytes "padding-md5") with
  | some cm =>
    if cm != asciiBytes s.schemeMd5 then
      s.writeFrame { cmd := .updatePaddingScheme, sid := 0, data := s.scheme.raw }
    else (s, .ok)
  | none => (s, .ok)

/-- Settings arm, second half: record the peer version and answer with ServerSettings -/
def Sess.maybeServerSettings (s : Sess) (m : List (Bytes × Bytes)) : Sess × Outcome :=
  match (mapGet m (asciiBytes "v")).bind u8OfAscii with
  | some v =>
    if v ≥ 2 then
      let s := { s with peerVersion := v }
      let payload := settingsBytes (("v", "2") :: s.serverSettings)
      match s.writeFrame { cmd := .serverSettings, sid := 0, data := payload } with
      | (s', .ok) => (s', .continue)
      | (s', _) => (s', .stop "write failed")
    else (s, .continue)
  | none => (s, .continue)

def Sess.handleSettings (s : Sess) (data : Bytes) : Sess × Outcome :=
  let m := parseMap data
  match s.maybePushScheme m with
  | (s1, .ok) => s1.maybeServerSettings m
  | (s1, _) => (s1, .stop "write failed")

/-- Alert arm: every registered stream is marked closed, then the session is torn down -/
def Sess.handleAlert (s : Sess) (data : Bytes) : Sess × Outcome :=
  let msg := if !data.isEmpty then stringOfBytes data else "Unknown alert"
  let inStreams := fun (i : Nat) => s.streams.any (·.2 == i)
  let objs' := s.objs.mapIdx (fun i o => if inStreams i = true then o.closeWithError else o)
  ({ s with objs := objs' }.close, .stop ("Alert: " ++ msg))

/-- `handle_frame` -/
def Sess.handleFrame (s : Sess) (f : Frame) : Sess × Outcome :=
  match f.cmd with
  | .push =>
    match tblGet s.recv f.sid with
    | some h => (s.modObj h (fun o => { o with rd := o.rd.push f.data }), .continue)
    | none => (s, .continue)
  | .syn =>
    if !s.isClient then
      let h := s.objs.length
      let s := s.dropRecvEntry f.sid
      let s := { s with objs := s.objs ++ [({ sid := f.sid } : Obj)],
                        recv := tblInsert s.recv f.sid h, streams := tblInsert s.streams f.sid h }
      let s := if s.hasCallback then { s with delivered := s.delivered ++ [h] } else s
      (s, .continue)
    else (s, .continue)
  | .synAck =>
    if s.isClient then
      match tblGet s.streams f.sid with
      | some h =>
        if !f.data.isEmpty then
          (s.modObj h (fun o => o.notifySynack
            (.err ("Protocol error: Protocol error: Server error: " ++ stringOfBytes f.data))), .continue)
        else (s.modObj h (fun o => o.notifySynack .ok), .continue)
      | none => (s, .continue)
    else (s, .continue)
  | .fin =>
    let s := s.dropRecvEntry f.sid
    -- a pending open of the closed stream fails now (first-wins: a no-op once it was answered)
    let s := s.failPendingOpen f.sid
    ({ s with streams := tblRemove s.streams f.sid, recv := tblRemove s.recv f.sid }, .continue)
  | .settings =>
    if !s.isClient && !f.data.isEmpty then s.handleSettings f.data else (s, .continue)
  | .serverSettings =>
    if s.isClient && !f.data.isEmpty then
      match (mapGet (parseMap f.data) (asciiBytes "v")).bind u8OfAscii with
      | some v => ({ s with peerVersion := v }, .continue)
      | none => (s, .continue)
    else (s, .continue)
  | .updatePaddingScheme =>
    if s.isClient && !f.data.isEmpty then
      match Scheme.parse f.data with
      | some sch =>
        -- `update_default` then `*padding = default()`: the session adopts the pushed scheme
        ({ s with scheme := sch, schemeMd5 := Md5.hex f.data, pushed := s.pushed ++ [sch] }, .continue)
      | none => (s, .continue)      -- unparsable: ignored, the session carries on
    else (s, .continue)
  | .alert => s.handleAlert f.data
  | .heartRequest =>
    match s.writeFrame { cmd := .heartResponse, sid := f.sid, data := [] } with
    | (s', .ok) => (s', .continue)
    | (s', _) => (s', .stop "write failed")
  | .heartResponse => ({ s with heartResponses := s.heartResponses + 1 }, .continue)
  | .waste => (s, .continue)

/-- handle frames until one stops the loop -/
def Sess.handleFrames : Sess → List Frame → Sess × Outcome
  | s, [] => (s, .continue)
  | s, f :: fs =>
    match s.handleFrame f with
    | (s', .continue) => Sess.handleFrames s' fs
    | (s', .stop r) => (s', .stop r)

/-- one successful transport read of the receive loop -/
def Sess.feedBytes (s : Sess) (chunk : Bytes) : Sess :=
  if s.recvDone then s
  else if s.closed then { s with recvDone := true }     -- `if self.is_closed() { break }`
  else
    let (fs, rest) := decodeAll (s.rbuf ++ chunk)
    match s.handleFrames fs with
    | (s', .continue) => { s' with rbuf := rest }
    | (s', .stop _) => { s' with recvDone := true, rbuf := [] }

/-- transport EOF or a read error seen by the receive loop -/
def Sess.feedEnd (s : Sess) : Sess :=
  if s.recvDone then s
  else { s.close with recvDone := true }

/-- `start_client`: Settings frame under buffering -/
def Sess.startClient (s : Sess) : Sess × Res :=
  let payload := settingsBytes [("v", "2"), ("client", "anytls-rs/0.1.0"), ("padding-md5", s.schemeMd5)]
  { s with buffering := true }.writeFrame { cmd := .settings, sid := 0, data := payload }

end AnyTLS
