/-
What a well-formed proxy request is, and what the property says must happen to it — the
specification side of C17, independent of how `http_proxy.rs` parses.
-/
import AnyTLS.Model.Http

namespace AnyTLS.Http

/-- the authority a request names -/
structure Authority where
  /-- host as the tunnel must be opened to it: a name, an IPv4 literal, or an IPv6 literal without brackets -/
  host : Str
  /-- IPv6 literal: spelled in brackets in the request -/
  v6 : Bool
  port : Option Nat
  deriving Repr, DecidableEq

/-- characters of a request token: no whitespace (that includes CR and LF) -/
def tokenOk (s : Str) : Prop := ∀ c ∈ s, isWs c = false

instance (s : Str) : Decidable (tokenOk s) := by unfold tokenOk; infer_instance

def Authority.WF (a : Authority) : Prop :=
  a.host ≠ [] ∧ tokenOk a.host ∧
  '/' ∉ a.host ∧ '?' ∉ a.host ∧ '[' ∉ a.host ∧ ']' ∉ a.host ∧
  (a.v6 = true ↔ ':' ∈ a.host) ∧
  (∀ p, a.port = some p → p < 65536)

/-- the authority as spelled in a request: `host`, `[v6]`, with `:port` when a port is given -/
def Authority.render (a : Authority) : Str :=
  (if a.v6 then '[' :: a.host ++ [']'] else a.host) ++
  (match a.port with | some p => ':' :: digits p | none => [])

inductive Form where
  /-- `CONNECT authority` -/
  | connect
  /-- `scheme://authority` followed by `pq` (empty, or starting with `/` or `?`) -/
  | absolute (https : Bool) (pq : Str)
  /-- origin form (`/path?query`, or `*`); the authority is in the Host header -/
  | origin (path : Str)
  deriving Repr, DecidableEq

structure Req where
  method : Str
  form : Form
  auth : Authority
  version : Str
  /-- header lines before / after the Host header line -/
  pre : List Str
  hostLine : Option Str
  post : List Str
  deriving Repr, DecidableEq

def Req.lines (r : Req) : List Str := r.pre ++ r.hostLine.toList ++ r.post

def Req.target (r : Req) : Str :=
  match r.form with
  | .connect => r.auth.render
  | .absolute https pq => (if https then "https://".toList else "http://".toList) ++ r.auth.render ++ pq
  | .origin path => path

/-- the header block as the client sends it -/
def Req.render (r : Req) : Str :=
  r.method ++ ' ' :: r.target ++ ' ' :: r.version ++ crlf ++ r.lines.flatMap (· ++ crlf) ++ crlf

def lineOk (l : Str) : Prop := l ≠ [] ∧ '\r' ∉ l

instance (l : Str) : Decidable (lineOk l) := by unfold lineOk; infer_instance

def Req.WF (r : Req) : Prop :=
  r.method ≠ [] ∧ tokenOk r.method ∧ r.version ≠ [] ∧ tokenOk r.version ∧ r.auth.WF ∧
  (∀ l ∈ r.pre ++ r.post, lineOk l ∧ isHostLine l = false) ∧
  (∀ l, r.hostLine = some l → lineOk l ∧ isHostLine l = true) ∧
  (match r.form with
   | .connect => r.method = "CONNECT".toList
   | .absolute _ pq =>
     eqIgnoreCase r.method "CONNECT".toList = false ∧ tokenOk pq ∧
     (pq = [] ∨ ∃ t, pq = '/' :: t ∨ pq = '?' :: t)
   | .origin path =>
     eqIgnoreCase r.method "CONNECT".toList = false ∧ tokenOk path ∧
     ((∃ t, path = '/' :: t) ∨ path = ['*']) ∧
     -- the Host header carries the authority, optional whitespace around it
     ∃ l, r.hostLine = some l ∧ trim (l.drop 5) = r.auth.render)

/-- the port the tunnel must be opened to -/
def Req.port (r : Req) : Nat :=
  match r.auth.port with
  | some p => p
  | none =>
    match r.form with
    | .connect => 443
    | .absolute https _ => if https then 443 else 80
    | .origin _ => 80

def Req.isConnect (r : Req) : Bool := match r.form with | .connect => true | _ => false

/-- origin form of what follows the authority in an absolute URI: an empty path is `/` -/
def originOf (pq : Str) : Str := match pq with | [] => ['/'] | '/' :: _ => pq | _ => '/' :: pq

/-- the request target in origin form -/
def Req.originTarget (r : Req) : Str :=
  match r.form with
  | .connect => []
  | .absolute _ pq => originOf pq
  | .origin path => path

/-- what the parser must derive from the request -/
def Req.parsed (r : Req) (body : Bytes) : Parsed :=
  { method := r.method, version := r.version, host := r.auth.host, port := r.port, path := r.originTarget,
    isConnect := r.isConnect, headers := r.lines, body := body }

/-- the normalised Host header line -/
def Req.normHost (r : Req) : Str :=
  "Host: ".toList ++ (if r.auth.v6 then '[' :: r.auth.host ++ [']'] else r.auth.host) ++
  (if r.port = 80 ∨ r.port = 443 then [] else ':' :: digits r.port)

/-- what the origin server must receive for a non-CONNECT request: same method, origin-form
target, version, header lines in order, the Host line normalised (appended when there was none) -/
def Req.forwarded (r : Req) : Str :=
  r.method ++ ' ' :: r.originTarget ++ ' ' :: r.version ++ crlf ++
  (match r.hostLine with
   | some _ => r.pre ++ [r.normHost] ++ r.post
   | none => r.pre ++ r.post ++ [r.normHost]).flatMap (· ++ crlf) ++ crlf

end AnyTLS.Http
